"""Reference model for the modified Gromov-Hausdorff distance between graph metric spaces.

mGH(X,Y) = 1/2 max( min_{f:X->Y} dis f , min_{g:Y->X} dis g ),  dis f = max |dX(x,x') - dY(f x, f x')|
by enumeration of ALL maps (vectorised).  Also: labelled graph enumeration, components.
"""
import itertools
from collections import deque

import numpy as np

_cache = {}


def bfs_dist(adj):
    """All-pairs shortest path lengths of an undirected unweighted graph (inf if unreachable)."""
    n = len(adj)
    D = np.full((n, n), np.inf)
    for s in range(n):
        D[s, s] = 0
        q = deque([s])
        while q:
            u = q.popleft()
            for v in range(n):
                if (adj[u][v] or adj[v][u]) and D[s, v] == np.inf:
                    D[s, v] = D[s, u] + 1
                    q.append(v)
    return D


def components(adj):
    n = len(adj)
    D = bfs_dist(adj)
    comps, seen = [], set()
    for s in range(n):
        if s in seen:
            continue
        c = [v for v in range(n) if np.isfinite(D[s, v])]
        seen.update(c)
        comps.append(c)
    return comps


def min_distortion(DX, DY):
    key = (DX.tobytes(), DX.shape, DY.tobytes(), DY.shape)
    if key in _cache:
        return _cache[key]
    n, m = len(DX), len(DY)
    DXs = DX.astype(np.int16)
    DYs = DY.astype(np.int16)
    total = m ** n
    best = None
    chunk = 200000
    # maps enumerated in mixed-radix order, in chunks (7^7 maps x 49 entries do not fit at once)
    for start in range(0, total, chunk):
        idx = np.arange(start, min(total, start + chunk), dtype=np.int64)
        maps = np.empty((len(idx), n), dtype=np.int16)
        rem = idx.copy()
        for pos in range(n - 1, -1, -1):
            maps[:, pos] = rem % m
            rem //= m
        img = DYs[maps[:, :, None], maps[:, None, :]]
        dis = np.abs(img - DXs[None, :, :]).reshape(len(maps), -1).max(axis=1)
        v = int(dis.min())
        best = v if best is None else min(best, v)
        if best == 0:
            break
    _cache[key] = best
    return best


_bb_cache = {}


def min_distortion_bb(DX, DY):
    """Same value as min_distortion, by exhaustive depth-first search over partial maps with the
    only sound pruning there is: the distortion of a partial map never decreases when it is extended,
    so a branch whose distortion already reaches the best complete map found cannot improve on it.
    (Validated against the plain enumeration on every pair of graphs <= 4 vertices in the self-test.)"""
    key = (DX.tobytes(), DX.shape, DY.tobytes(), DY.shape)
    if key in _bb_cache:
        return _bb_cache[key]
    n, m = len(DX), len(DY)
    DX = DX.astype(np.int64)
    DY = DY.astype(np.int64)
    # map the most "spread" points first: rows with the largest eccentricity
    order = sorted(range(n), key=lambda x: -int(DX[x].max()))
    best = [int(max(DX.max(), DY.max())) + 1]

    def rec(k, images, cur):
        if cur >= best[0]:
            return
        if k == n:
            best[0] = cur
            return
        x = order[k]
        if k == 0:
            cand = np.zeros(m, dtype=np.int64)
        else:
            xs = order[:k]
            cand = np.abs(DX[x, xs][None, :] - DY[:, images]).max(axis=1)
        for y in np.argsort(cand, kind="stable"):
            c = max(cur, int(cand[y]))
            if c >= best[0]:
                break
            rec(k + 1, images + [int(y)], c)

    rec(0, [], 0)
    _bb_cache[key] = best[0]
    return best[0]


def exact_double(DX, DY, bb=None):
    """2 * mGH as an integer (plain enumeration for small spaces, branch-and-bound search beyond)."""
    DX = np.asarray(DX, dtype=np.int64)
    DY = np.asarray(DY, dtype=np.int64)
    if bb is None:
        bb = max(len(DX), len(DY)) >= 6
    f = min_distortion_bb if bb else min_distortion
    return max(f(DX, DY), f(DY, DX))


def labelled_graphs(n, connected_only=False):
    """All labelled simple graphs on n vertices as upper-triangular 0/1 adjacency lists."""
    pairs = [(i, j) for i in range(n) for j in range(i + 1, n)]
    for bits in itertools.product((0, 1), repeat=len(pairs)):
        A = [[0] * n for _ in range(n)]
        for (i, j), b in zip(pairs, bits):
            A[i][j] = b
        if connected_only and len(components(A)) != 1:
            continue
        yield A


def relabel(A, perm):
    """Graph with vertex i renamed perm[i] (upper-triangular result)."""
    n = len(A)
    B = [[0] * n for _ in range(n)]
    for i in range(n):
        for j in range(n):
            if A[i][j] or A[j][i]:
                a, b = perm[i], perm[j]
                B[min(a, b)][max(a, b)] = 1
    return B


def sub_dist(A, comp):
    D = bfs_dist(A)
    return D[np.ix_(comp, comp)].astype(np.int64)


def truth_candidates_double(A, B):
    """Set of admissible values of 2*mGH: one per choice of a largest connected component on
    each side (a single value when both graphs are connected)."""
    out = set()
    ca, cb = components(A), components(B)
    ma, mb = max(map(len, ca)), max(map(len, cb))
    for x in [c for c in ca if len(c) == ma]:
        for y in [c for c in cb if len(c) == mb]:
            out.add(exact_double(sub_dist(A, x), sub_dist(B, y)))
    return out


def isomorphic(A, B):
    n = len(A)
    if n != len(B):
        return False
    ea = {(i, j) for i in range(n) for j in range(n) if i < j and (A[i][j] or A[j][i])}
    eb = {(i, j) for i in range(n) for j in range(n) if i < j and (B[i][j] or B[j][i])}
    if len(ea) != len(eb):
        return False
    for p in itertools.permutations(range(n)):
        if {(min(p[i], p[j]), max(p[i], p[j])) for i, j in ea} == eb:
            return True
    return False


def atlas(n=None, max_edges_over_tree=None):
    """Unlabelled connected graphs from data/atlas_connected.json as upper-triangular adjacency lists."""
    import json
    import os

    path = os.path.join(os.path.dirname(os.path.dirname(os.path.abspath(__file__))), "data", "atlas_connected.json")
    out = []
    for k, edges in json.load(open(path)):
        if n is not None and k != n:
            continue
        if max_edges_over_tree is not None and len(edges) > k - 1 + max_edges_over_tree:
            continue
        A = [[0] * k for _ in range(k)]
        for u, v in edges:
            A[u][v] = 1
        out.append(A)
    return out
