"""Piecewise-linear functions with exact rational arithmetic (reference model for C09/C10).

A function is a list of (x, y) breakpoints with non-decreasing x; it is the linear
interpolation between them and 0 outside [x_first, x_last].
"""
import math
from fractions import Fraction


def F(x):
    if isinstance(x, Fraction):
        return x
    if isinstance(x, int):
        return Fraction(x)
    return Fraction(float(x))  # exact value of the double


def make(pairs):
    return [(F(x), F(y)) for x, y in pairs]


def ev(f, t):
    """Value at t (0 outside the breakpoints; right-continuous choice never matters for continuous f)."""
    t = F(t)
    if not f or t < f[0][0] or t > f[-1][0]:
        return Fraction(0)
    for (x0, y0), (x1, y1) in zip(f, f[1:]):
        if x0 <= t <= x1:
            if x1 == x0:
                return y1 if t == x1 else y0
            return y0 + (y1 - y0) * (t - x0) / (x1 - x0)
    return f[-1][1] if t == f[-1][0] else Fraction(0)


def xs(f):
    return [x for x, _ in f]


def combine(fs, coeffs):
    """sum_i coeffs[i] * fs[i] as a PL function on the union of breakpoints (functions must vanish
    at their ends, so that the zero extension is continuous)."""
    pts = sorted({x for f in fs for x in xs(f)})
    return [(x, sum((F(c) * ev(f, x) for f, c in zip(fs, coeffs)), Fraction(0))) for x in pts]


def add(f, g):
    return combine([f, g], [1, 1])


def sub(f, g):
    return combine([f, g], [1, -1])


def scale(f, c):
    return [(x, F(c) * y) for x, y in f]


def sup(f):
    return max([abs(y) for _, y in f] or [Fraction(0)])


def int_abs_p(f, p):
    """Integral of |f|^p over the real line (float)."""
    tot = []
    for (x0, y0), (x1, y1) in zip(f, f[1:]):
        if x1 == x0:
            continue
        if (y0 < 0 < y1) or (y1 < 0 < y0):
            z = x0 + (x1 - x0) * (-y0) / (y1 - y0)
            tot.append(_seg(x0, abs(y0), z, Fraction(0), p))
            tot.append(_seg(z, Fraction(0), x1, abs(y1), p))
        else:
            tot.append(_seg(x0, abs(y0), x1, abs(y1), p))
    return math.fsum(tot)


def _seg(x0, a, x1, b, p):
    """Integral over [x0,x1] of the p-th power of the linear function from a>=0 to b>=0."""
    w = float(x1 - x0)
    a, b = float(a), float(b)
    if a == b:
        return w * a ** p
    lo, hi = min(a, b), max(a, b)
    # w * (hi^{p+1} - lo^{p+1}) / ((p+1)(hi-lo)), arranged to avoid cancellation when lo ~ hi
    if (hi - lo) / hi < 1e-6:
        m = 0.5 * (hi + lo)
        return w * (m ** p + p * (p - 1) * m ** (p - 2) * (hi - lo) ** 2 / 24.0)
    return w * (hi ** (p + 1) - lo ** (p + 1)) / ((p + 1) * (hi - lo))


def p_norm(fs, p):
    """(sum over depths of the integral of |f|^p)^(1/p)."""
    return math.fsum(int_abs_p(f, p) for f in fs) ** (1.0 / p)


def sup_norm(fs):
    return float(max([sup(f) for f in fs] or [Fraction(0)]))


def equal_everywhere(f, g, extra_points=(), tol=0):
    """Two PL functions are equal on R iff equal on the union of breakpoints and outside both."""
    pts = sorted(set(xs(f)) | set(xs(g)) | {F(t) for t in extra_points})
    if pts:
        pts = [pts[0] - 1] + pts + [pts[-1] + 1]
    for t in pts:
        if abs(ev(f, t) - ev(g, t)) > tol:
            return False, t
    return True, None
