"""Reference model for bottleneck / Wasserstein: brute force over ALL partial matchings.

A partial matching pairs some points of S with distinct points of T; every unpaired point of
either diagram goes to the diagonal.  Boring on purpose: plain recursion, plain floats.
"""
import math


def linf(p, q):
    return max(abs(p[0] - q[0]), abs(p[1] - q[1]))


def l2(p, q):
    return math.hypot(p[0] - q[0], p[1] - q[1])


def diag_half(p):
    return (p[1] - p[0]) / 2.0


def diag_perp(p):
    return (p[1] - p[0]) / math.sqrt(2.0)


def all_matchings(m, n):
    """Yield every partial matching between range(m) and range(n) as a tuple of (i, j) pairs."""

    def rec(i, used):
        if i == m:
            yield ()
            return
        # i -> diagonal
        for rest in rec(i + 1, used):
            yield rest
        for j in range(n):
            if not (used >> j) & 1:
                for rest in rec(i + 1, used | (1 << j)):
                    yield ((i, j),) + rest

    return rec(0, 0)


def matching_costs(S, T, pairs, pair_cost, diag_cost):
    ms = {i for i, _ in pairs}
    mt = {j for _, j in pairs}
    costs = [pair_cost(S[i], T[j]) for i, j in pairs]
    costs += [diag_cost(S[i]) for i in range(len(S)) if i not in ms]
    costs += [diag_cost(T[j]) for j in range(len(T)) if j not in mt]
    return costs


def brute(S, T, pair_cost, diag_cost, agg):
    """Return (optimal value, info) with agg in {'max','sum'}.

    info['mixed']: some optimal matching has both a cross pair and a diagonal pairing.
    info['n_optimal']: number of optimal matchings; info['n_matchings'] total enumerated.
    """
    S = [tuple(map(float, p[:2])) for p in S]
    T = [tuple(map(float, p[:2])) for p in T]
    best = None
    vals = []
    for pairs in all_matchings(len(S), len(T)):
        costs = matching_costs(S, T, pairs, pair_cost, diag_cost)
        if agg == "max":
            v = max(costs) if costs else 0.0
        else:
            v = math.fsum(costs)
        n_diag = len(S) + len(T) - 2 * len(pairs)
        vals.append((v, len(pairs) > 0 and n_diag > 0))
        if best is None or v < best:
            best = v
    tol = 1e-12 * max(1.0, abs(best))
    opt = [mx for v, mx in vals if v <= best + tol]
    return best, {"mixed": any(opt), "n_optimal": len(opt), "n_matchings": len(vals)}


def bottleneck_ref(S, T):
    return brute(S, T, linf, diag_half, "max")


def wasserstein_ref(S, T):
    return brute(S, T, l2, diag_perp, "sum")


def candidate_thresholds(S, T):
    """All values the bottleneck can take (pair costs, diagonal costs, 0)."""
    S = [tuple(map(float, p[:2])) for p in S]
    T = [tuple(map(float, p[:2])) for p in T]
    c = [0.0]
    c += [linf(p, q) for p in S for q in T]
    c += [diag_half(p) for p in S] + [diag_half(q) for q in T]
    return c


# ------------------------------------------------------------------------------------------------
# Reference values for LARGE diagrams (no brute force possible): independent of persim's bisection
# and of the hopcroftkarp package - threshold search with scipy's bipartite matching, and the
# assignment problem on an independently built cost matrix.
# ------------------------------------------------------------------------------------------------
def _cost_matrix(S, T, pair_cost_matrix, diag_cost):
    import numpy as np

    S = np.asarray(S, dtype=float).reshape(-1, 2)
    T = np.asarray(T, dtype=float).reshape(-1, 2)
    m, n = len(S), len(T)
    C = np.zeros((m + n, m + n))
    C[:m, :n] = pair_cost_matrix(S, T)
    C[:m, n:] = np.inf
    C[m:, :n] = np.inf
    for i in range(m):
        C[i, n + i] = diag_cost(S[i])
    for j in range(n):
        C[m + j, j] = diag_cost(T[j])
    return C


def bottleneck_large_ref(S, T):
    import numpy as np
    from scipy.sparse import csr_matrix
    from scipy.sparse.csgraph import maximum_bipartite_matching

    C = _cost_matrix(S, T, lambda A, B: np.maximum(np.abs(A[:, None, 0] - B[None, :, 0]), np.abs(A[:, None, 1] - B[None, :, 1])),
                     lambda p: (p[1] - p[0]) / 2.0)
    if C.size == 0:
        return 0.0
    vals = np.unique(C[np.isfinite(C)])
    lo, hi = 0, len(vals) - 1
    size = C.shape[0]

    def feasible(d):
        g = csr_matrix((C <= d).astype(np.int8))
        match = maximum_bipartite_matching(g, perm_type="column")
        return int((match >= 0).sum()) == size

    while lo < hi:
        mid = (lo + hi) // 2
        if feasible(vals[mid]):
            hi = mid
        else:
            lo = mid + 1
    return float(vals[lo])


def wasserstein_large_ref(S, T):
    import numpy as np
    from scipy.optimize import linear_sum_assignment

    C = _cost_matrix(S, T, lambda A, B: np.sqrt((A[:, None, 0] - B[None, :, 0]) ** 2 + (A[:, None, 1] - B[None, :, 1]) ** 2),
                     lambda p: (p[1] - p[0]) / np.sqrt(2.0))
    if C.size == 0:
        return 0.0
    big = 1e6 * (1.0 + np.nanmax(C[np.isfinite(C)]))
    C2 = np.where(np.isfinite(C), C, big)
    r, c = linear_sum_assignment(C2)
    return float(C2[r, c].sum())
