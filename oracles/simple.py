"""Defining formulas for the heat-kernel distance, sliced Wasserstein and persistent entropy."""
import math


def heat_kernel_terms(F, G, sigma):
    """Terms of k_sigma(F,G) (Reininghaus et al.), without the 1/(8 pi sigma) factor."""
    terms = []
    for p in F:
        for q in G:
            d1 = (p[0] - q[0]) ** 2 + (p[1] - q[1]) ** 2
            d2 = (p[0] - q[1]) ** 2 + (p[1] - q[0]) ** 2
            terms.append(math.exp(-d1 / (8.0 * sigma)))
            terms.append(-math.exp(-d2 / (8.0 * sigma)))
    return terms


def heat_sq(F, G, sigma):
    """(d^2, abs_mass): squared heat-kernel distance and the sum of |terms| (round-off scale)."""
    c = 1.0 / (8.0 * math.pi * sigma)
    ff, gg, fg = heat_kernel_terms(F, F, sigma), heat_kernel_terms(G, G, sigma), heat_kernel_terms(F, G, sigma)
    d2 = c * math.fsum(ff + gg + [-2.0 * t for t in fg])
    mass = c * (math.fsum(map(abs, ff)) + math.fsum(map(abs, gg)) + 2.0 * math.fsum(map(abs, fg)))
    return d2, mass


def sliced_wasserstein(P1, P2, M):
    """(1/M) sum_i sorted-L1 distance of projections on theta_i = pi (1/2 + i/M), float64."""
    def diag_proj(p):
        m = (p[0] + p[1]) / 2.0
        return (m, m)

    A = [tuple(p) for p in P1] + [diag_proj(p) for p in P2]
    B = [tuple(p) for p in P2] + [diag_proj(p) for p in P1]
    tot = []
    for i in range(M):
        th = math.pi * (0.5 + i / float(M))
        c, s = math.cos(th), math.sin(th)
        va = sorted(c * p[0] + s * p[1] for p in A)
        vb = sorted(c * p[0] + s * p[1] for p in B)
        tot.append(math.fsum(abs(x - y) for x, y in zip(va, vb)) / M)
    return math.fsum(tot)


def entropy(lengths):
    L = math.fsum(lengths)
    return -math.fsum((l / L) * math.log(l / L) for l in lengths)


def sliced_wasserstein_np(P1, P2, M):
    """The same definition evaluated with numpy (for diagrams of tens to hundreds of points, where the
    pure-Python loop is too slow); validated against sliced_wasserstein() in the self-test."""
    import numpy as np

    P1 = np.asarray(P1, dtype=float).reshape(-1, 2)
    P2 = np.asarray(P2, dtype=float).reshape(-1, 2)
    m1 = P1.sum(axis=1, keepdims=True) / 2.0
    m2 = P2.sum(axis=1, keepdims=True) / 2.0
    A = np.vstack([P1, np.hstack([m2, m2])])
    B = np.vstack([P2, np.hstack([m1, m1])])
    th = math.pi * (0.5 + np.arange(M) / float(M))
    U = np.vstack([np.cos(th), np.sin(th)])          # (2, M)
    va = np.sort(A @ U, axis=0)
    vb = np.sort(B @ U, axis=0)
    return math.fsum((np.abs(va - vb).sum(axis=0) / M).tolist())
