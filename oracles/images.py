"""Reference model for persistence-image pixels: probability mass of a kernel over a rectangle.

Gaussian, general covariance: 1-D quadrature of the conditional law (no CDF inclusion-exclusion,
independent of Genz's algorithm); diagonal covariance: product of erf differences; uniform box:
exact area of box-cap-rectangle.
"""
import math
from functools import lru_cache

from scipy.integrate import quad

from oracles.bvn import phi


def _phi_diff(a, b):
    """Phi(b) - Phi(a), accurate in both tails."""
    if a > 0 and b > 0:
        return phi(-a) - phi(-b)
    return phi(b) - phi(a)


@lru_cache(maxsize=None)
def gauss_mass(mx, my, vx, vy, cov, x0, x1, y0, y1):
    sx, sy = math.sqrt(vx), math.sqrt(vy)
    if cov == 0.0:
        return _phi_diff((x0 - mx) / sx, (x1 - mx) / sx) * _phi_diff((y0 - my) / sy, (y1 - my) / sy)
    r = cov / (sx * sy)
    s = sy * math.sqrt(1.0 - r * r)
    slope = r * sy / sx

    def f(x):
        m = my + slope * (x - mx)
        z = (x - mx) / sx
        return math.exp(-0.5 * z * z) / (sx * math.sqrt(2 * math.pi)) * _phi_diff((y0 - m) / s, (y1 - m) / s)

    # kinks of the integrand: where the conditional mean crosses the rectangle's y-limits, +- a few s
    pts = []
    for yy in (y0, y1):
        xc = mx + (yy - my) / slope
        for k in (-4, -1, 0, 1, 4):
            xp = xc + k * s / abs(slope)
            if x0 < xp < x1:
                pts.append(xp)
    if x0 < mx < x1:
        pts.append(mx)
    val, _ = quad(f, x0, x1, points=sorted(set(pts)) or None, epsabs=1e-13, epsrel=1e-11, limit=400)
    return val


def uniform_mass(mx, my, w, h, x0, x1, y0, y1):
    ox = max(0.0, min(x1, mx + w / 2.0) - max(x0, mx - w / 2.0))
    oy = max(0.0, min(y1, my + h / 2.0) - max(y0, my - h / 2.0))
    return ox * oy / (w * h)


def kernel_mass(kernel, mu, rect):
    """kernel: ('gauss', vx, vy, cov) | ('uniform', w, h); mu = (birth, pers); rect = (x0,x1,y0,y1)."""
    x0, x1, y0, y1 = rect
    if kernel[0] == "gauss":
        _, vx, vy, cov = kernel
        return gauss_mass(float(mu[0]), float(mu[1]), float(vx), float(vy), float(cov), float(x0), float(x1), float(y0), float(y1))
    _, w, h = kernel
    return uniform_mass(float(mu[0]), float(mu[1]), float(w), float(h), x0, x1, y0, y1)


def weight_value(weight, b, p):
    """weight: ('persistence', n) | ('linear_ramp', low, high, start, end) | ('user', k)."""
    if weight[0] == "persistence":
        return p ** weight[1]
    if weight[0] == "linear_ramp":
        _, low, high, start, end = weight
        if p < start:
            return low
        if p > end:
            return high
        return (p - start) * (high - low) / (end - start) + low
    if weight[0] == "user_view":
        return p if weight[1] == "p" else b      # the weight IS one of the coordinates
    return weight[1] * abs(b) + p


def image_ref(points_bp, kernel, weight, b0, p0, px, res):
    """Reference image (res[0] x res[1]); points_bp in birth-persistence coordinates."""
    import numpy as np

    img = np.zeros(res)
    for b, p in points_bp:
        w = weight_value(weight, b, p)
        if w == 0.0:
            continue
        for i in range(res[0]):
            for j in range(res[1]):
                rect = (b0 + i * px, b0 + (i + 1) * px, p0 + j * px, p0 + (j + 1) * px)
                img[i, j] += w * kernel_mass(kernel, (b, p), rect)
    return img
