"""Reference bivariate normal CDF, independent of Genz's algorithm (Plackett's identity).

Phi2(h,k;r) = Phi(h)Phi(k) + 1/(2 pi) * int_0^{asin r} exp(-(h^2+k^2-2hk sin t)/(2 cos^2 t)) dt
"""
import math
from functools import lru_cache

from scipy.integrate import quad


def phi(x):
    return 0.5 * math.erfc(-x / math.sqrt(2.0))


@lru_cache(maxsize=None)
def phi2(h, k, r):
    if r == 0.0:
        return phi(h) * phi(k)
    if abs(r) >= 1.0:
        raise ValueError("|r| must be < 1")
    a = math.asin(r)

    def f(t):
        c = math.cos(t)
        e = -(h * h + k * k - 2.0 * h * k * math.sin(t)) / (2.0 * c * c)
        return math.exp(e) if e > -745.0 else 0.0

    # the integrand can be sharply peaked near the end point for |r| -> 1: split the range
    pts = [0.0, 0.5 * a, 0.9 * a, 0.99 * a, 0.999 * a, a]
    tot = 0.0
    for u, v in zip(pts, pts[1:]):
        val, _ = quad(f, u, v, epsabs=1e-15, epsrel=1e-13, limit=200)
        tot += val
    return phi(h) * phi(k) + tot / (2.0 * math.pi)


def uniform_cdf(x, y, mu, width, height):
    """CDF of the uniform law on the box of the given size centred at mu."""
    fx = min(max((x - (mu[0] - width / 2.0)) / width, 0.0), 1.0)
    fy = min(max((y - (mu[1] - height / 2.0)) / height, 0.0), 1.0)
    return fx * fy
