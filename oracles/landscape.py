"""Reference model for persistence landscapes: lambda_k(t) = k-th largest tent value."""
from fractions import Fraction

from oracles.plfun import F


def tent(b, d, t):
    return max(Fraction(0), min(t - b, d - t))


def kth_tent(D, t, k):
    """k >= 1; D = iterable of (b, d); exact rational arithmetic."""
    t = F(t)
    vals = sorted((tent(F(b), F(d), t) for b, d in D), reverse=True)
    return vals[k - 1] if k <= len(vals) else Fraction(0)


def tents_at(D, t):
    t = F(t)
    return sorted((tent(F(b), F(d), t) for b, d in D), reverse=True)


def breakpoints(D):
    """A finite set containing every breakpoint of every lambda_k: births, deaths, midpoints and
    pairwise crossings (b_i + d_j)/2."""
    B = [F(b) for b, _ in D]
    Dd = [F(d) for _, d in D]
    pts = set(B) | set(Dd)
    for b in B:
        for d in Dd:
            pts.add((b + d) / 2)
    return sorted(pts)


def kth_landscape_pl(D, k):
    """lambda_k as an exact breakpoint list (used by the C09/C10 operand builders)."""
    pts = breakpoints(D)
    return [(t, kth_tent(D, t, k)) for t in pts]


def depth_count(D):
    """Number of depths that are not identically zero."""
    n = 0
    pts = breakpoints(D)
    mids = [(a + b) / 2 for a, b in zip(pts, pts[1:])]
    for k in range(1, len(list(D)) + 1):
        if any(kth_tent(D, t, k) > 0 for t in pts + mids):
            n = k
    return n
