#!/bin/bash
# tools/collect_seed.sh <seed-id e.g. C16-f> [extra checks...]
# Takes the uncommitted change + _seed/{demo.py,notes.md} from the sub-agent's worktree /tmp/wt/<id>,
# stores them under /var/tmp/seedin/<id>/ and evaluates them with tools/seed_eval.sh against the target check.
set -u
id=$1; shift
prop=${id%%-*}
wt=/tmp/wt/$id
in=/var/tmp/seedin/$id; mkdir -p "$in"
git -C "$wt" diff -- persim > "$in/patch.diff"
cp "$wt"/_seed/*.py "$in/" 2>/dev/null; cp "$wt/_seed/demo.py" "$in/demo.py"; cp "$wt/_seed/notes.md" "$in/notes.md" 2>/dev/null
[ -s "$in/patch.diff" ] || { echo "EMPTY PATCH for $id"; exit 3; }
/verif/tools/seed_eval.sh "$id" "$in/patch.diff" "$in/demo.py" "$prop" "$prop" "$@"
cp "$in/notes.md" "/verif/seeded/$id/notes.md" 2>/dev/null
