#!/bin/bash
# Re-evaluate every seeded change against its target check and the checks anchored in the same files.
cd /verif
rel() { case $1 in
  C01|C02|C06|C07) echo "C01 C02 C06 C07 C19 C20";;
  C03|C08|C09|C10) echo "C03 C08 C09 C10 C19";;
  C04|C11|C12|C18) echo "C04 C11 C12 C18 C19";;
  C13) echo "C13 C04 C11 C19";;
  C14) echo "C14 C19";; C15) echo "C15 C19";; C16) echo "C16 C19";;
  C05|C17) echo "C05 C17 C19";;
  C20) echo "C20 C19";;
esac; }
for d in seeded/C*-*/; do
  id=$(basename $d); p=${id%%-*}
  [ -n "${ONLY:-}" ] && [[ ! " $ONLY " =~ " $id " ]] && continue
  tools/seed_eval.sh $id $d/patch.diff $d/demo.py $p $(rel $p) 2>&1 | grep -v "^[0-9]*:"
done
tools/seed_meta.py
