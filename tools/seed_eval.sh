#!/bin/bash
# tools/seed_eval.sh <seed-id> <patch.diff> <demo.py> <property> [checks...]
# Confirms an independently written breaking change on a scratch copy of /repo (suite green with the
# change, demonstration fails with it and passes without it), then runs the given quick checks against it.
set -u
id=$1; patch=$(readlink -f "$2"); demo=$(readlink -f "$3"); prop=$4; shift 4
out=/verif/seeded/$id; mkdir -p "$out"
scratch=$(mktemp -d /var/tmp/seed.XXXXXX)
trap 'rm -rf "$scratch"' EXIT
rsync -a --exclude .git --exclude __pycache__ --exclude _seed /repo/ "$scratch/"
mkdir -p "$scratch/_seed"; cp "$(dirname "$demo")"/*.py "$scratch/_seed/" 2>/dev/null; cp "$demo" "$scratch/_seed/demo.py"
( cd "$scratch" && PYTHONPATH="$scratch" /venv/bin/python _seed/demo.py >/dev/null 2>&1 ); demo_clean=$?
( cd "$scratch" && patch -p1 -s < "$patch" ) || { echo "PATCH FAILED"; exit 3; }
suite=$( cd "$scratch" && /venv/bin/python -m pytest -q -p no:cacheprovider --timeout=900 2>&1 | tail -1 )
( cd "$scratch" && PYTHONPATH="$scratch" /venv/bin/python _seed/demo.py >/dev/null 2>&1 ); demo_mut=$?
echo "seed=$id property=$prop suite_with_change='$suite' demo_without_change_rc=$demo_clean demo_with_change_rc=$demo_mut"
res=""
for c in "$@"; do
  o=$(VERIF_REPO="$scratch" /verif/run "$c" --tier "${TIER:-quick}" 2>&1); rc=$?
  sigs=$(echo "$o" | grep "^VIOLATION" | sed 's/.*# \([^:]*\):.*/\1/' | sort | uniq -c | sort -rn | head -4 | awk '{printf "%s(%s) ", $2, $1}')
  echo "  $c rc=$rc $sigs"
  res="$res{\"check\":\"$c\",\"rc\":$rc,\"signatures\":\"$sigs\"},"
done
[ "$patch" -ef "$out/patch.diff" ] || cp "$patch" "$out/patch.diff"; [ "$demo" -ef "$out/demo.py" ] || cp "$demo" "$out/demo.py"
cat > "$out/eval.json" <<J
{"seed":"$id","property":"$prop","suite_with_change":"$suite","demo_without_change_rc":$demo_clean,"demo_with_change_rc":$demo_mut,"checks":[${res%,}]}
J
