#!/bin/bash
# tools/seed_regress.sh [out-file]: every seeded change against its TARGET check only (quick tier), on a scratch
# copy of /repo HEAD's working tree; prints "<seed> apply=<ok|FAILED> rc=<rc> <signatures>".  No pytest, no demo
# (those were confirmed when the seed was recorded).  Used to see that later strengthening / fixes did not lose
# a detection and that every patch still applies.
here=$(dirname "$(readlink -f "$0")")/..
out=${1:-/var/tmp/seed_regress.log}; : > "$out"
for d in /verif/seeded/C*-*/; do
  id=$(basename $d); p=${id%%-*}
  [ -n "${ONLY:-}" ] && [[ ! " $ONLY " =~ " $id " ]] && continue
  scratch=$(mktemp -d /var/tmp/regr.XXXXXX)
  rsync -a --exclude .git --exclude __pycache__ /repo/ "$scratch/"
  if ( cd "$scratch" && patch -p1 -s < "$d/patch.diff" ) >/dev/null 2>&1; then ap=ok; else ap=FAILED; fi
  o=$(VERIF_REPO="$scratch" "$here/run" "$p" --tier quick 2>&1); rc=$?
  sigs=$(echo "$o" | grep "^VIOLATION" | sed 's/.*# \([^:]*\):.*/\1/' | sort | uniq -c | sort -rn | head -3 | awk '{printf "%s(%s) ", $2, $1}')
  echo "$id apply=$ap rc=$rc $sigs" | tee -a "$out"
  rm -rf "$scratch"
done
