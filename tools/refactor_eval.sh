#!/bin/bash
# tools/refactor_eval.sh <id> <patch.diff> CNN...  : behaviour-preserving refactor on a scratch copy; every check must stay silent
id=$1; patch=$(readlink -f "$2"); shift 2
scratch=$(mktemp -d /var/tmp/ref.XXXXXX); trap 'rm -rf "$scratch"' EXIT
rsync -a --exclude .git --exclude __pycache__ /repo/ "$scratch/"
( cd "$scratch" && patch -p1 -s < "$patch" ) || { echo "PATCH FAILED"; exit 3; }
echo "refactor=$id suite: $(cd "$scratch" && /venv/bin/python -m pytest -q -p no:cacheprovider 2>&1 | tail -1)"
for c in "$@"; do
  o=$(VERIF_REPO="$scratch" /verif/run "$c" 2>&1); rc=$?
  echo "  $c rc=$rc $(echo "$o" | grep "^VIOLATION" | sed 's/.*# \([^:]*\):.*/\1/' | sort | uniq -c | sort -rn | head -3 | awk '{printf "%s(%s) ", $2, $1}')"
done
mkdir -p /verif/benign; cp "$patch" /verif/benign/$id.diff
