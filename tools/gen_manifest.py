#!/venv/bin/python
"""Regenerate MANIFEST.json from the check modules present in checks/ (metadata lives here)."""
import importlib
import json
import os
import sys

VERIF = os.path.dirname(os.path.dirname(os.path.abspath(__file__)))
sys.path.insert(0, VERIF)
from mc import env  # noqa: E402,F401

ALL = ["C%02d" % i for i in range(1, 21)]
BASELINE = ("cd /repo && env -u PERSIM_VERIF /venv/bin/python -m pytest -ra -q -p no:cacheprovider "
            "--timeout=900 --continue-on-collection-errors")

TECH = {
    "C01": "exhaustive enumeration of all small lattice diagram pairs x all rank orders of the matching routine's hash-ordered sets (schedule exploration) vs brute-force matching oracle",
    "C02": "exhaustive enumeration of all small lattice diagram pairs (+affine/permutation/container/inf variants) vs brute-force min-sum matching oracle",
    "C06": "exhaustive enumeration of diagram pairs x all rank orders; every returned matching checked as a certificate",
    "C07": "exhaustive pairs and triples over a replicated/two-cluster family (up to hundreds of points) with an exact replication oracle",
}
DEFAULT_TECH = "bounded exhaustive exploration of the real code against a reference model"


def main():
    checks = []
    na = []
    for pid in ALL:
        path = os.path.join(VERIF, "checks", pid.lower() + ".py")
        if not os.path.exists(path):
            na.append({"property_id": pid, "reason": "check not built yet (planned in DESIGN.md section 4); not claimed until it exists and passes"})
            continue
        mod = importlib.import_module("checks." + pid.lower())
        checks.append({
            "property_id": pid,
            "quick_cmd": "./run %s --tier quick" % pid,
            "thorough_cmd": "./run %s --tier thorough" % pid,
            "evidence_file": "/verif/evidence/%s.json" % pid,
            "replay_cmd_template": "./run --replay {path}",
            "engine": "mc",
            "level_claimed": {
                "category": "model_checking",
                "text": getattr(mod, "LEVEL_TEXT", "Every element of the finite space described in the evidence 'rule' and 'bounds' is executed on the real persim code and compared with an independent reference model; no sampling. " + getattr(mod, "RULE", "")),
                "design_ref": "DESIGN.md section 4, " + pid,
            },
            "level_note": getattr(mod, "LEVEL_NOTE", "Trusted base: the reference models in /verif/oracles, numpy/scipy, the stated tolerances. Inputs outside the enumerated alphabet/bounds are not covered. " + "; ".join(getattr(mod, "ASSUMPTIONS", []))),
            "technique": getattr(mod, "TECHNIQUE", TECH.get(pid, DEFAULT_TECH)),
        })
    man = {
        "version": 1,
        "setup_cmd": "./run --selftest",
        "hooks": {
            "guard": "PERSIM_VERIF",
            "enable": "PERSIM_VERIF=1 in the environment of the worker processes (set by mc/env.py); persim is pure Python, checks import it from /repo's working tree in fresh processes",
            "baseline_off_cmd": BASELINE,
            "source_commits": json.load(open(os.path.join(VERIF, "hooks.json")))["source_commits"] if os.path.exists(os.path.join(VERIF, "hooks.json")) else [],
            "add_only": True,
        },
        "engines": [{
            "name": "mc",
            "path": "/verif/mc",
            "serves_properties": [c["property_id"] for c in checks],
            "kind_free_text": "hand-written explicit-state / bounded-exhaustive explorers in Python: closed input spaces (A), BFS over operation histories on real objects (B), prefix-replay exploration of intercepted nondeterministic calls (C)",
        }],
        "checks": checks,
        "not_applicable": na,
        "notes": "See DESIGN.md. known_findings.txt lists recorded and fixed defects; seeded/ holds independently written breaking changes and which checks catch them.",
    }
    with open(os.path.join(VERIF, "MANIFEST.json"), "w") as f:
        json.dump(man, f, indent=1)
        f.write("\n")
    print("MANIFEST.json: %d checks, %d not claimed" % (len(checks), len(na)))


if __name__ == "__main__":
    main()
