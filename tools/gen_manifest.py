#!/venv/bin/python
"""Regenerate MANIFEST.json from the check modules present in checks/ (metadata lives here)."""
import importlib
import json
import os
import sys

VERIF = os.path.dirname(os.path.dirname(os.path.abspath(__file__)))
sys.path.insert(0, VERIF)
from mc import env  # noqa: E402,F401

ALL = ["C%02d" % i for i in range(1, 21)]
BASELINE = ("cd /repo && env -u PERSIM_VERIF /venv/bin/python -m pytest -ra -q -p no:cacheprovider "
            "--timeout=900 --continue-on-collection-errors")

TECH = {
    "C01": "exhaustive enumeration of all small lattice diagram pairs x ALL rank orders of the matching routine's hash-ordered sets (schedule exploration, explorer C) x real hash seeds, vs brute-force matching oracle",
    "C02": "exhaustive enumeration of all small lattice diagram pairs (+affine/permutation/container/inf variants) vs brute-force min-sum matching oracle",
    "C03": "exhaustive enumeration of all multisets of <= n lattice bars (all row orders, affine variants, hom_deg) vs exact rational k-th-largest-tent oracle; hook-based attribution of the known shortcut defect",
    "C04": "exhaustive configuration product (regions x pixels x kernels x weights x skew) x point cover vs independent quadrature oracle per pixel",
    "C05": "exhaustive enumeration of all pairs of connected labelled graphs x exploration of ALL answers of the intercepted NumPy random draws (prefix-replay, deviation-bounded, state-key pruning) vs exact mGH by enumeration of all maps",
    "C06": "exhaustive enumeration of diagram pairs x ALL rank orders; every returned matching checked as a certificate",
    "C07": "exhaustive pairs and triples over a replicated/two-cluster family (up to hundreds of points) with an exact replication oracle",
    "C08": "exhaustive enumeration of quarter-lattice bar multisets x grid/num_steps configurations vs k-th-largest-tent oracle at every node",
    "C09": "exhaustive operand pairs + explicit-state BFS over operation histories on shared real landscape objects vs exact rational PL reference pool",
    "C10": "exhaustive enumeration of operands, all pairwise differences/combinations and p values vs exact rational PL integration; all diagram pairs for the stability bound",
    "C11": "exhaustive relations over configuration x diagram pairs + exploration of ALL completion orders of joblib batches under a controlled backend (explorer C)",
    "C12": "explicit-state BFS over configuration histories (constructor product x setters x fits) of real PersistenceImager objects with state de-duplication and differential continuation; invariant + transition post-conditions on every state",
    "C13": "exhaustive configuration product (means x variances x correlations around every branch threshold) x full evaluation grid vs Plackett-integral reference and CDF axioms",
    "C14": "exhaustive enumeration of lattice diagram pairs/triples x all row permutations x sigma vs closed-form kernel oracle",
    "C15": "exhaustive enumeration of signed-lattice diagram pairs/triples x M vs defining-formula oracle and metric laws",
    "C16": "exhaustive enumeration of barcodes x flag combinations x infinite bars x containers vs Shannon-entropy oracle",
    "C17": "exhaustive enumeration of ALL labelled graphs <= 4 vertices (connected or not) x container/symmetry forms x collections, RNG answers owned by the explorer, vs exact mGH on largest components",
    "C18": "explicit-state BFS over fit/transform/fit_transform histories on real estimators with a differential oracle (fresh estimator replaying the history)",
    "C19": "exhaustive thunk x argument-form matrix + ALL call sequences f;g;f (f;g;h;f) on shared arguments with byte-level snapshots and a fingerprint of every function default",
    "C20": "exhaustive option product x diagram cover, matchings returned under ALL rank orders; artist inspection oracle",
}
DEFAULT_TECH = "bounded exhaustive exploration of the real code against a reference model"


def main():
    checks = []
    na = []
    for pid in ALL:
        path = os.path.join(VERIF, "checks", pid.lower() + ".py")
        if not os.path.exists(path):
            na.append({"property_id": pid, "reason": "check not built yet (planned in DESIGN.md section 4); not claimed until it exists and passes"})
            continue
        mod = importlib.import_module("checks." + pid.lower())
        checks.append({
            "property_id": pid,
            "quick_cmd": "./run %s --tier quick" % pid,
            "thorough_cmd": "./run %s --tier thorough" % pid,
            "evidence_file": "/verif/evidence/%s.json" % pid,
            "replay_cmd_template": "./run --replay {path}",
            "engine": "mc",
            "level_claimed": {
                "category": "model_checking",
                "text": getattr(mod, "LEVEL_TEXT", "Every element of the finite space described in the evidence 'rule' and 'bounds' is executed on the real persim code and compared with an independent reference model; no sampling. " + getattr(mod, "RULE", "")),
                "design_ref": "DESIGN.md section 4, " + pid,
            },
            "level_note": getattr(mod, "LEVEL_NOTE", "Trusted base: the reference models in /verif/oracles, numpy/scipy, the stated tolerances. Inputs outside the enumerated alphabet/bounds are not covered. " + "; ".join(getattr(mod, "ASSUMPTIONS", []))),
            "technique": getattr(mod, "TECHNIQUE", TECH.get(pid, DEFAULT_TECH)),
        })
    man = {
        "version": 1,
        "setup_cmd": "./run --selftest",
        "hooks": {
            "guard": "PERSIM_VERIF",
            "enable": "PERSIM_VERIF=1 in the environment of the worker processes (set by mc/env.py); persim is pure Python, checks import it from /repo's working tree in fresh processes",
            "baseline_off_cmd": BASELINE,
            "source_commits": json.load(open(os.path.join(VERIF, "hooks.json")))["source_commits"] if os.path.exists(os.path.join(VERIF, "hooks.json")) else [],
            "add_only": True,
        },
        "engines": [{
            "name": "mc",
            "path": "/verif/mc",
            "serves_properties": [c["property_id"] for c in checks],
            "kind_free_text": "hand-written explicit-state / bounded-exhaustive explorers in Python: closed input spaces (A), BFS over operation histories on real objects (B), prefix-replay exploration of intercepted nondeterministic calls (C)",
        }],
        "checks": checks,
        "not_applicable": na,
        "notes": "See DESIGN.md. known_findings.txt lists recorded and fixed defects; seeded/ holds independently written breaking changes and which checks catch them.",
    }
    with open(os.path.join(VERIF, "MANIFEST.json"), "w") as f:
        json.dump(man, f, indent=1)
        f.write("\n")
    print("MANIFEST.json: %d checks, %d not claimed" % (len(checks), len(na)))


if __name__ == "__main__":
    main()
