#!/venv/bin/python
"""Regenerate seeded/<id>/meta.json from eval.json (+ history notes kept in seeded/HISTORY.json)."""
import glob
import json
import os

hist = json.load(open('/verif/seeded/HISTORY.json')) if os.path.exists('/verif/seeded/HISTORY.json') else {}
for d in sorted(glob.glob('/verif/seeded/*/')):
    if not os.path.exists(d + 'eval.json'):
        continue
    ev = json.load(open(d + 'eval.json'))
    sid = ev['seed']
    meta = {
        "seed": sid, "property": ev['property'],
        "origin": "written by an independent sub-agent that was given only the property text and its own scratch git worktree of /repo (nothing from /verif)",
        "needs_to_manifest": "see notes.md (written by the sub-agent): what the change does, which clause it breaks, what it needs in order to manifest",
        "confirmed": {"how": "tools/seed_eval.sh: scratch copy of /repo HEAD, patch applied, pinned pytest suite, demonstration with and without the change",
                      "suite_with_change": ev['suite_with_change'], "demo_rc_without_change": ev['demo_without_change_rc'],
                      "demo_rc_with_change": ev['demo_with_change_rc']},
        "detection": ev['checks'],
        "history": hist.get(sid, "detected by the check as first built"),
    }
    json.dump(meta, open(d + 'meta.json', 'w'), indent=1)
print("meta.json regenerated")
