#!/opt/veriftools/pyvenv/bin/python
"""Writes data/atlas_connected.json: every unlabelled connected simple graph on 1..7 vertices
(networkx graph atlas, 1253 graphs in total), as [n, [[u,v],...]].  Static input data for C05/C17."""
import json

import networkx as nx
from networkx.generators.atlas import graph_atlas_g

out = []
for G in graph_atlas_g():
    n = G.number_of_nodes()
    if n == 0 or not nx.is_connected(G):
        continue
    out.append([n, sorted([min(u, v), max(u, v)] for u, v in G.edges())])
json.dump(out, open('/verif/data/atlas_connected.json', 'w'))
import collections
print(collections.Counter(g[0] for g in out))
