#!/bin/bash
# tools/mutant.sh <patch> [--suite] CNN [CNN...]  : apply patch to a scratch copy of /repo, run checks against it
set -u
patch=$(readlink -f "$1"); shift
suite=0; if [ "${1:-}" = "--suite" ]; then suite=1; shift; fi
scratch=$(mktemp -d /var/tmp/mut.XXXXXX)
trap 'rm -rf "$scratch"' EXIT
rsync -a --exclude .git --exclude __pycache__ /repo/ "$scratch/"
( cd "$scratch" && patch -p1 -s < "$patch" ) || { echo "PATCH FAILED"; exit 3; }
if [ $suite = 1 ]; then
  ( cd "$scratch" && /venv/bin/python -m pytest -q -x -p no:cacheprovider --timeout=900 2>&1 | tail -3 )
fi
for c in "$@"; do
  VERIF_REPO="$scratch" /verif/run "$c" --tier "${TIER:-quick}" | grep -E "VIOLATION|KNOWN|held|HARNESS|violating" | head -${LINES_MAX:-6}; rc=${PIPESTATUS[0]}
  echo "rc=$rc (${c})"
done
