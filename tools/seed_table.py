#!/venv/bin/python
"""Markdown table of all seeded changes and what detects them (from seeded/*/meta.json)."""
import glob
import json

summ = json.load(open('/verif/seeded/SUMMARY.json'))
rows = []
for d in sorted(glob.glob('/verif/seeded/C*-*/')):
    m = json.load(open(d + 'meta.json'))
    det = "; ".join("%s: %s" % (c["check"], (c["signatures"].strip() or "-") if c["rc"] == 1 else ("not detected" if c["rc"] == 0 else "rc=%d" % c["rc"])) for c in m["detection"])
    rows.append("| %s | %s | %s | %s |" % (m["seed"], summ.get(m["seed"], ""), det, m["history"]))
print("| seed | change (independent sub-agent) | detected by (quick tier): signature(count of replay files) | history |")
print("|---|---|---|---|")
print("\n".join(rows))
