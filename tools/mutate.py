#!/venv/bin/python
"""tools/mutate.py - systematic single-site mutation screening of the checks.

  mutate.py gen  [--per-file N] > mutants.json      enumerate mutants of the property-anchored persim sources
  mutate.py run  mutants.json results.jsonl [-j N]  for each mutant: scratch copy of /repo, apply, pinned suite
                                                    (-x); if the suite stays green, the quick checks anchored in
                                                    the mutated file (fail-fast), until one reports a VIOLATION
  mutate.py report results.jsonl                    table: suite-killed / detected (by which check) / survived

A *survivor* (suite green, every anchored check silent) is either an equivalent mutant (the change cannot alter
any observable the properties talk about) or a gap in the checks; survivors are triaged by hand
(seeded/MUTATION.md).  This is a detection demonstration, not a deciding method: nothing here is registered in
MANIFEST.json.  Mutation operators: comparison boundary (< <=, > >=, == !=), arithmetic (+ -, * /), augmented
assignment, and/or, dropped unary minus / not, integer constants +-1, float constants x2, True/False, condition
forced true/false, statement deletion (calls, augmented and subscript/attribute assignments), and name swaps
(max/min, maximum/minimum, argmax/argmin, floor/ceil, any/all, triu/tril, zeros->empty, abs->positive,
array->asarray, sorted->list, sort->asarray, .copy() dropped, deepcopy dropped).
"""
import ast
import json
import os
import subprocess
import sys
import tempfile
import shutil
import hashlib
import warnings

warnings.simplefilter("ignore")

REPO = os.environ.get("MUT_REPO", "/repo")
VERIF = os.environ.get("MUT_VERIF", "/verif")

FILES = {
    "persim/bottleneck.py": ["C01", "C06"],
    "persim/wasserstein.py": ["C02", "C06"],
    "persim/heat.py": ["C14"],
    "persim/sliced_wasserstein.py": ["C15"],
    "persim/persistent_entropy.py": ["C16"],
    "persim/gromov_hausdorff.py": ["C05", "C17"],
    "persim/images.py": ["C04", "C12", "C18", "C11"],
    "persim/images_kernels.py": ["C13", "C04"],
    "persim/images_weights.py": ["C04"],
    "persim/landscapes/exact.py": ["C03", "C09", "C10"],
    "persim/landscapes/approximate.py": ["C08", "C09", "C10"],
    "persim/landscapes/auxiliary.py": ["C09", "C10", "C08"],
    "persim/landscapes/base.py": ["C03", "C10"],
    "persim/landscapes/tools.py": ["C08", "C09"],
    "persim/landscapes/transformer.py": ["C18", "C08"],
    "persim/visuals.py": ["C20"],
    "persim/landscapes/visuals.py": ["C20"],
}
# the purity check C19 (every argument byte-compared, repeated results) is added for mutations that can only show
# there: dropped copies, np.array -> np.asarray, np.zeros -> np.empty, deleted statements.  The metric-law check C07
# and the checks of other properties anchored in the same file are left out of the screening (cost), i.e. the
# screening understates detection.
C19_OPS = ("drop-copy", "drop-deepcopy", "name:array", "name:zeros", "delete", "augassign", "bool")
C19_FILES = ("persim/images.py", "persim/visuals.py", "persim/bottleneck.py", "persim/wasserstein.py", "persim/heat.py",
             "persim/sliced_wasserstein.py", "persim/persistent_entropy.py", "persim/landscapes/exact.py",
             "persim/landscapes/approximate.py", "persim/gromov_hausdorff.py")
# scopes no property talks about (the deprecated PersImage class, the imager's own plot helpers, 3-D landscape plots)
SKIP_SCOPES = {
    "persim/images.py": {"PersImage", "plot_diagram", "plot_image"},
    "persim/landscapes/visuals.py": {"plot_landscape", "plot_landscape_exact", "plot_landscape_approx"},
}

CMP = {ast.Lt: "<=", ast.LtE: "<", ast.Gt: ">=", ast.GtE: ">", ast.Eq: "!=", ast.NotEq: "=="}
CMP_TXT = {ast.Lt: "<", ast.LtE: "<=", ast.Gt: ">", ast.GtE: ">=", ast.Eq: "==", ast.NotEq: "!="}
BIN = {ast.Add: ("+", "-"), ast.Sub: ("-", "+"), ast.Mult: ("*", "/"), ast.Div: ("/", "*"), ast.FloorDiv: ("//", "/")}
NAMES = {
    "max": "min", "min": "max", "maximum": "minimum", "minimum": "maximum", "argmax": "argmin", "argmin": "argmax",
    "amax": "amin", "amin": "amax", "floor": "ceil", "ceil": "floor", "any": "all", "all": "any",
    "triu": "tril", "tril": "triu", "zeros": "empty", "abs": "positive", "array": "asarray", "sorted": "list",
    "sort": "asarray", "argsort": "arange_like", "isfinite": "isreal", "isinf": "isnan", "cumsum": "cumprod",
    "sqrt": "positive", "ones": "zeros", "nanmax": "nanmin", "nanmin": "nanmax", "floor_divide": "true_divide",
    "unique": "asarray", "sum": "max", "log": "log2", "exp": "exp2", "round": "floor",
}
NAMES.pop("argsort")


class Gen(ast.NodeVisitor):
    def __init__(self, path, src):
        self.path, self.src = path, src
        self.lines = src.split("\n")
        self.off = [0]
        for ln in self.lines:
            self.off.append(self.off[-1] + len(ln.encode()) + 1)
        self.bsrc = src.encode()
        self.out = []
        self.scope = []
        self.doc_nodes = set()

    def pos(self, lineno, col):
        return self.off[lineno - 1] + col

    def span(self, node):
        return self.pos(node.lineno, node.col_offset), self.pos(node.end_lineno, node.end_col_offset)

    def add(self, a, b, new, op, node):
        old = self.bsrc[a:b].decode()
        if old == new:
            return
        self.out.append({"file": self.path, "line": node.lineno, "a": a, "b": b, "old": old, "new": new, "op": op,
                         "scope": ".".join(self.scope)})

    def between(self, left, right, tok, new, op, node):
        a0 = self.pos(left.end_lineno, left.end_col_offset)
        b0 = self.pos(right.lineno, right.col_offset)
        seg = self.bsrc[a0:b0].decode()
        i = seg.find(tok)
        if i < 0 or seg.count(tok) != 1:
            return
        # parentheses between operands may hide the operator position; require only whitespace/parens around
        if seg.replace(tok, "").strip(" ()\n\\") != "":
            return
        self.add(a0 + i, a0 + i + len(tok), new, op, node)

    def visit_scope(self, node):
        if node.name in SKIP_SCOPES.get(self.path, ()):
            return
        self.scope.append(node.name)
        if node.body and isinstance(node.body[0], ast.Expr) and isinstance(getattr(node.body[0], "value", None), ast.Constant) \
                and isinstance(node.body[0].value.value, str):
            self.doc_nodes.add(id(node.body[0]))
        # default values in signatures are not mutated: no property fixes a default (the first tranche showed
        # that class: sigma=0.4, M=50, num_steps=500, p=2 ... all survive, none is a gap)
        for child in node.body:
            self.visit(child)
        self.scope.pop()

    visit_FunctionDef = visit_ClassDef = visit_scope

    def visit_Compare(self, node):
        operands = [node.left] + node.comparators
        for i, o in enumerate(node.ops):
            if type(o) in CMP:
                self.between(operands[i], operands[i + 1], CMP_TXT[type(o)], CMP[type(o)], "cmp", node)
        self.generic_visit(node)

    def visit_BinOp(self, node):
        if type(node.op) in BIN and not (isinstance(node.left, ast.Constant) and isinstance(node.left.value, str)):
            tok, new = BIN[type(node.op)]
            self.between(node.left, node.right, tok, new, "arith", node)
        self.generic_visit(node)

    def visit_AugAssign(self, node):
        if type(node.op) in BIN:
            tok, new = BIN[type(node.op)]
            self.between(node.target, node.value, tok + "=", new + "=", "augassign", node)
        if self.scope:
            self.delete_stmt(node)
        self.generic_visit(node)

    def visit_BoolOp(self, node):
        tok, new = ("and", "or") if isinstance(node.op, ast.And) else ("or", "and")
        for l, r in zip(node.values, node.values[1:]):
            self.between(l, r, tok, new, "boolop", node)
        self.generic_visit(node)

    def visit_UnaryOp(self, node):
        a, b = self.span(node)
        oa, ob = self.span(node.operand)
        if isinstance(node.op, ast.USub) and not isinstance(node.operand, ast.Constant):
            self.add(a, oa, "", "drop-minus", node)
        elif isinstance(node.op, ast.USub):
            self.add(a, oa, "", "drop-minus", node)
        elif isinstance(node.op, ast.Not):
            self.add(a, oa, "", "drop-not", node)
        self.generic_visit(node)

    def visit_Constant(self, node):
        v = node.value
        a, b = self.span(node)
        if isinstance(v, bool):
            self.add(a, b, str(not v), "bool", node)
        elif isinstance(v, int):
            self.add(a, b, str(v + 1), "int+1", node)
            self.add(a, b, str(v - 1) if v - 1 >= 0 else "(%d)" % (v - 1), "int-1", node)
        elif isinstance(v, float):
            self.add(a, b, repr(v * 2) if v else "1.0", "float*2", node)

    def visit_If(self, node):
        a, b = self.span(node.test)
        self.add(a, b, "True", "if-true", node)
        self.add(a, b, "False", "if-false", node)
        self.generic_visit(node)

    visit_While = visit_If

    def visit_IfExp(self, node):
        a, b = self.span(node.test)
        self.add(a, b, "True", "if-true", node)
        self.add(a, b, "False", "if-false", node)
        self.generic_visit(node)

    def delete_stmt(self, node):
        a, b = self.span(node)
        self.add(a, b, "pass", "delete", node)

    def visit_Expr(self, node):
        if id(node) in self.doc_nodes or (isinstance(node.value, ast.Constant) and isinstance(node.value.value, str)):
            return
        f = getattr(node.value, "func", None)
        if isinstance(f, ast.Name) and f.id in ("print", "verboseprint"):
            return  # progress messages
        if self.scope and isinstance(node.value, ast.Call):
            self.delete_stmt(node)
        self.generic_visit(node)

    def visit_Assign(self, node):
        if self.scope and any(isinstance(t, (ast.Subscript, ast.Attribute)) for t in node.targets):
            self.delete_stmt(node)
        self.generic_visit(node)

    def visit_Call(self, node):
        f = node.func
        name = f.attr if isinstance(f, ast.Attribute) else f.id if isinstance(f, ast.Name) else None
        if name in NAMES:
            if isinstance(f, ast.Attribute):
                b = self.pos(f.end_lineno, f.end_col_offset)
                a = b - len(name)
                new = NAMES[name]
                if name == "sort" and not (isinstance(f.value, ast.Name) and f.value.id == "np"):
                    new = None  # list.sort() in place: handled by statement deletion
                if name in ("sum", "max", "min", "all", "any", "round") and not (isinstance(f.value, ast.Name) and f.value.id == "np"):
                    pass
                if new:
                    self.add(a, b, new, "name:" + name, node)
            elif name in ("max", "min", "any", "all", "sorted", "abs", "sum", "round"):
                a, b = self.span(f)
                new = {"abs": "float", "sum": "max", "round": "float"}.get(name, NAMES[name])
                self.add(a, b, new, "name:" + name, node)
        # x.copy() -> x ;  copy.deepcopy(x) / deepcopy(x) -> (x)
        if isinstance(f, ast.Attribute) and f.attr == "copy" and not node.args and not node.keywords:
            a = self.pos(f.value.end_lineno, f.value.end_col_offset)
            b = self.pos(node.end_lineno, node.end_col_offset)
            self.add(a, b, "", "drop-copy", node)
        if name == "deepcopy" and len(node.args) == 1:
            a, b = self.span(f)
            self.add(a, b, "", "drop-deepcopy", node)
        self.generic_visit(node)


def gen(per_file):
    allm = []
    for path in FILES:
        src = open(os.path.join(REPO, path)).read()
        g = Gen(path, src)
        g.visit(ast.parse(src))
        ms = g.out
        # keep only mutants that still compile
        ok = []
        for m in ms:
            new = (g.bsrc[: m["a"]] + m["new"].encode() + g.bsrc[m["b"]:]).decode()
            try:
                compile(new, path, "exec")
            except SyntaxError:
                continue
            ok.append(m)
        # deterministic subsample: order by a hash so that the sample spreads over the file
        ok.sort(key=lambda m: hashlib.sha1(("%s:%d:%d:%s" % (m["file"], m["a"], m["b"], m["new"])).encode()).hexdigest())
        total = len(ok)
        if per_file and len(ok) > per_file:
            ok = ok[:per_file]
        for m in ok:
            m["of"] = total
        allm += ok
    for m in allm:
        m["id"] = "M" + hashlib.sha1(("%s:%d:%d:%s" % (m["file"], m["a"], m["b"], m["new"])).encode()).hexdigest()[:8]
    return allm


def evaluate(m, verif):
    scratch = tempfile.mkdtemp(prefix="mut.", dir="/var/tmp")
    res = {"id": m["id"], "file": m["file"], "line": m["line"], "op": m["op"], "old": m["old"], "new": m["new"],
           "scope": m["scope"]}
    try:
        subprocess.run(["rsync", "-a", "--exclude", ".git", "--exclude", "__pycache__", REPO + "/", scratch + "/"], check=True)
        p = os.path.join(scratch, m["file"])
        b = open(p, "rb").read()
        assert b[m["a"]:m["b"]].decode() == m["old"], "source moved"
        open(p, "wb").write(b[: m["a"]] + m["new"].encode() + b[m["b"]:])
        env = dict(os.environ, PYTHONDONTWRITEBYTECODE="1")
        try:
            r = subprocess.run(["/venv/bin/python", "-m", "pytest", "-q", "-x", "-p", "no:cacheprovider", "--timeout=300"],
                               cwd=scratch, env=env, stdout=subprocess.PIPE, stderr=subprocess.STDOUT, timeout=900)
            suite_ok = r.returncode == 0
        except subprocess.TimeoutExpired:
            suite_ok = False
        if not suite_ok:
            res["verdict"] = "suite-killed"
            return res
        res["checks"] = {}
        checks = list(FILES[m["file"]])
        if m["op"] in C19_OPS and m["file"] in C19_FILES:
            checks.append("C19")
        for c in checks:
            env2 = dict(os.environ, VERIF_REPO=scratch, VERIF_FAILFAST="1", VERIF_WORKERS=os.environ.get("MUT_CHECK_WORKERS", "4"))
            try:
                r = subprocess.run([os.path.join(verif, "run"), c, "--tier", "quick"], env=env2, stdout=subprocess.PIPE,
                                   stderr=subprocess.STDOUT, timeout=3600)
                out = r.stdout.decode(errors="replace")
                rc = r.returncode
            except subprocess.TimeoutExpired:
                out, rc = "", 99
            sig = ""
            for ln in out.splitlines():
                if ln.startswith("VIOLATION"):
                    sig = ln.split("#", 1)[-1].strip()[:160]
                    break
                if ln.startswith("HARNESS-ERROR"):
                    sig = ln[:200]
            res["checks"][c] = {"rc": rc, "sig": sig}
            if rc == 1:
                res["verdict"] = "detected"
                res["by"] = c
                return res
        res["verdict"] = "survived"
        return res
    except Exception as e:  # noqa: BLE001
        res["verdict"] = "error"
        res["error"] = repr(e)
        return res
    finally:
        shutil.rmtree(scratch, ignore_errors=True)


def run(mfile, outfile, jobs):
    from concurrent.futures import ThreadPoolExecutor, as_completed

    ms = json.load(open(mfile))
    done = set()
    if os.path.exists(outfile):
        for ln in open(outfile):
            done.add(json.loads(ln)["id"])
    todo = [m for m in ms if m["id"] not in done]
    # private copy of the verification tree: evidence / replays of mutated runs must not land in /verif
    verif = tempfile.mkdtemp(prefix="mutverif.", dir="/var/tmp")
    subprocess.run(["rsync", "-a", "--exclude", ".git", "--exclude", "seeded", "--exclude", "benign", "--exclude", "replays",
                    VERIF + "/", verif + "/"], check=True)
    try:
        with ThreadPoolExecutor(jobs) as ex, open(outfile, "a") as f:
            for fut in as_completed([ex.submit(evaluate, m, verif) for m in todo]):
                res = fut.result()
                f.write(json.dumps(res) + "\n")
                f.flush()
                print(res["id"], res["file"], res["line"], res["op"], repr(res["old"]), "->", repr(res["new"]), res["verdict"],
                      res.get("by", ""), flush=True)
    finally:
        shutil.rmtree(verif, ignore_errors=True)


def report(outfile):
    import collections

    rows = [json.loads(ln) for ln in open(outfile)]
    by = collections.defaultdict(collections.Counter)
    for r in rows:
        by[r["file"]][r["verdict"]] += 1
    print("%-36s %6s %6s %6s %6s" % ("file", "suite", "detect", "surviv", "error"))
    tot = collections.Counter()
    for f, c in sorted(by.items()):
        print("%-36s %6d %6d %6d %6d" % (f, c["suite-killed"], c["detected"], c["survived"], c["error"]))
        tot.update(c)
    print("%-36s %6d %6d %6d %6d" % ("total", tot["suite-killed"], tot["detected"], tot["survived"], tot["error"]))
    print()
    for r in rows:
        if r["verdict"] in ("survived", "error"):
            print(r["id"], r["file"], "line", r["line"], r["scope"], r["op"], repr(r["old"]), "->", repr(r["new"]), r["verdict"],
                  r.get("error", ""), {k: v["rc"] for k, v in r.get("checks", {}).items() if v["rc"] not in (0, 1)} or "")


if __name__ == "__main__":
    cmd = sys.argv[1]
    if cmd == "gen":
        per = int(sys.argv[sys.argv.index("--per-file") + 1]) if "--per-file" in sys.argv else 0
        json.dump(gen(per), sys.stdout, indent=0)
    elif cmd == "run":
        jobs = int(sys.argv[sys.argv.index("-j") + 1]) if "-j" in sys.argv else 4
        run(sys.argv[2], sys.argv[3], jobs)
    elif cmd == "report":
        report(sys.argv[2])
