"""Explorer A: closed input spaces, generated simplest-first (DESIGN.md 2.1)."""
import itertools


def lattice_points(G, lo=0, diagonal=True):
    """Λ(G): integer points (b, d) with lo <= b <= d <= G (diagonal optional), simplest first."""
    pts = []
    for d in range(lo, G + 1):
        for b in range(lo, d + 1):
            if b < d or diagonal:
                pts.append((b, d))
    pts.sort(key=lambda p: (p[1] - p[0], p[0]))
    return pts


def bars(G, lo=0):
    return lattice_points(G, lo=lo, diagonal=False)


def multisets_upto(alphabet, n, min_size=0):
    """All multisets of at most n atoms, as tuples in alphabet order, smallest first."""
    for k in range(min_size, n + 1):
        for c in itertools.combinations_with_replacement(alphabet, k):
            yield c


def tuples_upto(alphabet, n, min_size=0):
    for k in range(min_size, n + 1):
        for c in itertools.product(alphabet, repeat=k):
            yield c


def distinct_permutations(seq):
    seen = set()
    for p in itertools.permutations(seq):
        if p not in seen:
            seen.add(p)
            yield p


def count_multisets(a, n):
    from math import comb

    return sum(comb(a + k - 1, k) for k in range(n + 1))
