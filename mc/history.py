"""Explorer B: explicit-state breadth-first search over operation histories on REAL objects.

A state is the history (init, [op, ...]) that reaches it; live objects are never copied, a state
is rebuilt by replaying its history on a fresh object (inside the check's run_case).  `canon`
keys are used to de-duplicate; for merged states the explorer also continues one step from the
second history and requires the same successor keys ("differential continuation", DESIGN.md 2.2).
"""
import collections

from mc.ctx import HarnessError, jsonable, stable_hash


def bfs(ctx, mod, inits, ops, depth, run_history, diff_continuation=True, max_states=None, prefix=(), dedup=True):
    """run_history(case, ctx) -> canonical key of the final state (or None if the history broke).

    `case` = {"init": init, "ops": [...]}; run_history replays the whole history on fresh
    objects and evaluates every transition post-condition and state invariant along it
    (violations are recorded through ctx).  Returns statistics.  dedup=False explores the full
    tree of histories up to `depth` (for behaviour that may depend on hidden state such as the
    number of calls, which the canonical key cannot see).
    """
    seen = {}
    frontier = collections.deque()
    expected_succ = {}
    continued = set()

    def run(init, hist):
        res = [None]
        case = {"init": init, "ops": list(prefix) + list(hist)}
        ctx.run_case(mod, case, fn=lambda c, cx: res.__setitem__(0, run_history(c, cx)))
        return res[0]

    def note(h, succ, init, hist):
        """successor keys of state h as seen from one history; all histories must agree"""
        if h in expected_succ:
            if expected_succ[h][0] != succ:
                ctx.count("merged_states_with_different_futures")
                ctx.violation(
                    "canon-merge",
                    "two histories reach the same public state but have different futures",
                    observed={"history": jsonable([init, hist])}, expected={"other_history": jsonable(expected_succ[h][1])},
                    case={"init": init, "ops": list(hist)})
        else:
            expected_succ[h] = (succ, [init, list(hist)])

    for init in inits:
        k = run(init, [])
        if k is None:
            continue
        hk = stable_hash(k)
        ctx.states.add(hk)
        if hk not in seen:
            seen[hk] = (init, [])
            frontier.append((init, [], hk))
    maxdepth = 0
    while frontier:
        init, hist, hk = frontier.popleft()
        if len(hist) >= depth:
            continue
        succ = []
        ops_here = ops(init, hist) if callable(ops) else ops
        for op in ops_here:
            k2 = run(init, hist + [op])
            succ.append(None if k2 is None else stable_hash(k2))
            if k2 is None:
                continue
            h2 = succ[-1]
            ctx.states.add(h2)
            if h2 not in seen or not dedup:
                if max_states and len(seen) >= max_states:
                    ctx.cap("max_states=%d" % max_states)
                    continue
                seen.setdefault(h2, (init, hist + [op]))
                frontier.append((init, hist + [op], h2))
                maxdepth = max(maxdepth, len(hist) + 1)
            elif (diff_continuation and len(hist) + 1 < depth and h2 not in continued
                  and seen[h2] != (init, hist + [op])):
                # merged state: continue one step from THIS history too; successor keys must
                # agree with those seen from the representative history (checked once per state)
                continued.add(h2)
                alt = []
                for op2 in (ops(init, hist + [op]) if callable(ops) else ops):
                    k3 = run(init, hist + [op, op2])
                    alt.append(None if k3 is None else stable_hash(k3))
                ctx.count("merged_states_differentially_continued")
                note(h2, alt, init, hist + [op])
        note(hk, succ, init, hist)
    ctx.count("bfs_max_depth_reached", 0)
    ctx.info["bfs_depth_bound"] = depth
    return {"states": len(seen), "maxdepth": maxdepth}
