"""File-system barrier + all-gather between the worker processes of one hash-seed group."""
import os
import pickle
import time

from mc.ctx import FailFast, HarnessError, _failfast_flag


def allgather(ctx, name, payload, timeout_s=3600):
    """Every worker of the group contributes `payload`; returns the list of all payloads."""
    d = os.environ.get("VERIF_SHARED")
    if not d or ctx.nshards == 1:
        return [payload]
    mine = os.path.join(d, "%s_g%d_s%d.pkl" % (name, ctx.group, ctx.shard))
    with open(mine + ".tmp", "wb") as f:
        pickle.dump(payload, f)
    os.rename(mine + ".tmp", mine)
    want = [os.path.join(d, "%s_g%d_s%d.pkl" % (name, ctx.group, s)) for s in range(ctx.nshards)]
    t0 = time.time()
    while not all(os.path.exists(w) for w in want):
        if time.time() - t0 > timeout_s:
            raise HarnessError("barrier %s timed out" % name)
        flag = _failfast_flag()
        if flag and os.path.exists(flag):
            raise FailFast()
        time.sleep(0.05)
    out = []
    for w in want:
        with open(w, "rb") as f:
            out.append(pickle.load(f))
    return out
