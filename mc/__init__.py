"""Hand-written bounded-exhaustive explorers for persim (see DESIGN.md section 2)."""
