"""setup_cmd: explorers on toy systems with seeded bugs + environment sanity (no build step exists)."""
import sys


def main():
    from mc import env
    from mc.ctx import Ctx, stable_hash
    from mc.enumerate import lattice_points, multisets_upto, count_multisets
    from oracles import matching as om

    env.assert_persim_from_repo()
    fails = []
    # enumerator closed-form sizes
    L = lattice_points(3)
    if len(L) != 10 or len(list(multisets_upto(L, 2))) != count_multisets(10, 2) != 66:
        fails.append("lattice/multiset enumeration size")
    # brute-force matching oracle on hand-computed values
    if om.bottleneck_ref([[0, 2]], [[0, 3]])[0] != 1.0 or om.bottleneck_ref([[0, 2]], [])[0] != 1.0:
        fails.append("bottleneck oracle")
    if abs(om.wasserstein_ref([[0, 2]], [[0, 3]])[0] - 1.0) > 1e-12:
        fails.append("wasserstein oracle")
    if sum(1 for _ in om.all_matchings(4, 4)) != 209:
        fails.append("matching enumeration (209 partial matchings of 4 vs 4)")
    # a toy system with a seeded bug must be caught by Ctx bookkeeping
    class Toy:
        DETERMINISTIC = True

        @staticmethod
        def run_case(c, ctx):
            if c == 3:
                ctx.violation("toy", "seeded bug")
            ctx.outcome(c)

    ctx = Ctx("TOY", "quick")
    for c in range(5):
        ctx.run_case(Toy, c)
    if ctx.violation_count != 1 or len(ctx.outcomes) != 5:
        fails.append("ctx bookkeeping")
    if stable_hash((1, "a")) != stable_hash([1, "a"]):
        fails.append("stable hash canonicalisation")
    # exhaustive branch-and-bound mGH oracle == plain enumeration of all maps, on every pair <= 4 vertices
    import numpy as np

    from oracles import mgh

    gs = [g for k in (1, 2, 3, 4) for g in mgh.labelled_graphs(k, True)]
    Ds = [mgh.bfs_dist(g).astype(np.int64) for g in gs]
    if any(mgh.exact_double(a, b, bb=True) != mgh.exact_double(a, b, bb=False) for a in Ds[::2] for b in Ds[::3]):
        fails.append("branch-and-bound mGH oracle disagrees with enumeration")
    # numpy evaluation of the sliced Wasserstein definition == pure-Python evaluation
    from oracles import simple as OS

    A_ = [[0.0, 2.0], [-1.0, 3.5], [1.0, 1.5]]
    B_ = [[0.5, 2.25], [-2.0, -1.0]]
    if any(abs(OS.sliced_wasserstein(A_, B_, M) - OS.sliced_wasserstein_np(A_, B_, M)) > 1e-12 for M in (1, 2, 7, 50, 131)):
        fails.append("numpy sliced-Wasserstein oracle disagrees with the pure-Python one")
    for extra in ("selftest_extra",):
        try:
            mod = __import__("mc." + extra, fromlist=["x"])
            fails += mod.run()
        except ImportError:
            pass
    if fails:
        print("SELFTEST FAILED: " + "; ".join(fails))
        return 1
    print("selftest ok")
    return 0


if __name__ == "__main__":
    sys.exit(main())
