"""CLI: shard a check over fresh worker processes, merge, match known findings, write evidence.

  ./run CNN [--tier quick|thorough]      exit 0 held / 1 VIOLATION / 2 harness error
  ./run --replay replays/CNN-1.json      re-execute one recorded case without the explorer
  ./run --selftest                       explorers on toy systems with seeded bugs (setup_cmd)
"""
import argparse
import glob
import importlib
import json
import os
import pickle
import shutil
import subprocess
import sys
import tempfile
import time

from mc import env
from mc.ctx import Ctx, jsonable, unjson

VERIF = env.VERIF
NCPU = int(os.environ.get("VERIF_WORKERS", os.cpu_count() or 4))


def load_known(prop):
    known = []
    path = os.path.join(VERIF, "known_findings.txt")
    if not os.path.exists(path):
        return known
    for line in open(path):
        line = line.strip()
        if not line.startswith("known:"):
            continue
        parts = line.split(None, 3)
        if len(parts) < 3 or parts[1] != "property=" + prop or not parts[2].startswith("sig="):
            continue
        known.append({"sig": parts[2][4:], "text": parts[3] if len(parts) > 3 else "", "hits": 0})
    return known


def run_check(prop, tier, seed):
    t0 = time.time()
    mod = importlib.import_module("checks." + prop.lower())
    groups = getattr(mod, "HASH_GROUPS", {}).get(tier, 1)
    nworkers = max(groups, min(NCPU, getattr(mod, "MAX_WORKERS", NCPU)))
    per_group = max(1, nworkers // groups)
    tmp = tempfile.mkdtemp(prefix="verif-%s-" % prop)
    procs = []
    try:
        for g in range(groups):
            for s in range(per_group):
                out = os.path.join(tmp, "w%d_%d.pkl" % (g, s))
                e = dict(os.environ)
                e["PYTHONHASHSEED"] = str((seed + g) % (2 ** 32))
                e["VERIF_SEED"] = str(seed)
                e["VERIF_SHARED"] = tmp
                cmd = [sys.executable, "-u", "-B", "-m", "mc.worker", prop, tier,
                       str(s), str(per_group), str(g), str(groups), str(seed), out]
                log = open(os.path.join(tmp, "w%d_%d.log" % (g, s)), "wb")
                procs.append((subprocess.Popen(cmd, cwd=VERIF, env=e, stdout=log, stderr=subprocess.STDOUT), out, log))
        results = []
        harness_errors = []
        # wait for all workers; if one dies without a result, stop the rest (they may be waiting
        # for it at a barrier)
        pending = list(procs)
        while pending:
            for item in list(pending):
                p, out, log = item
                if p.poll() is not None:
                    pending.remove(item)
                    if not os.path.exists(out):
                        for q, _, _ in pending:
                            q.kill()
            time.sleep(0.05)
        for p, out, log in procs:
            rc = p.returncode
            log.close()
            if os.path.exists(out):
                with open(out, "rb") as f:
                    d = pickle.load(f)
                results.append(d)
                if not d["status"]["ok"]:
                    harness_errors.append(d["status"]["error"])
            else:
                txt = open(log.name, "rb").read().decode(errors="replace")[-3000:]
                harness_errors.append("worker died (rc=%s): %s" % (rc, txt))
    finally:
        for p, _, _ in procs:
            if p.poll() is None:
                p.kill()
        shutil.rmtree(tmp, ignore_errors=True)

    # ---- merge -----------------------------------------------------------------------------
    import collections

    counters = collections.Counter()
    states, outcomes, nontrivial = set(), set(), set()
    transitions = validated = evaluations = vcount = 0
    violations, samples, caps, info = [], [], [], {}
    for d in results:
        counters.update(d["counters"])
        states |= d["states"]
        outcomes |= d["outcomes"]
        nontrivial |= d["nontrivial"]
        transitions += d["transitions"]
        validated += d["validated"]
        evaluations += d["evaluations"]
        vcount += d["violation_count"]
        violations += d["violations"]
        for s in d["samples"]:
            if len(samples) < 6 and s not in samples:
                samples.append(s)
        for c in d["caps"]:
            if c not in caps:
                caps.append(c)
        for k, v in d["info"].items():
            info.setdefault(k, v)

    # ---- known findings ----------------------------------------------------------------------
    known = load_known(prop)
    unmatched = []
    for v in violations:
        for k in known:
            if v["signature"] == k["sig"]:
                k["hits"] += 1
                break
        else:
            unmatched.append(v)
    # violations beyond the per-worker storage cap are not individually stored; they count as
    # unmatched unless every stored violation of that signature was matched
    stored_by_sig = collections.Counter(v["signature"] for v in violations)
    unmatched_total = 0
    known_sigs = {k["sig"] for k in known}
    for key, n in counters.items():
        if key.startswith("violations:"):
            sig = key[len("violations:"):]
            if sig not in known_sigs:
                unmatched_total += n
            else:
                for k in known:
                    if k["sig"] == sig:
                        k["hits"] = max(k["hits"], n)

    # ---- replay files --------------------------------------------------------------------------
    rdir = os.path.join(VERIF, "replays")
    os.makedirs(rdir, exist_ok=True)
    for old in glob.glob(os.path.join(rdir, prop + "-*.json")):
        os.remove(old)
    chosen, by_sig = [], collections.OrderedDict()
    for v in unmatched:
        by_sig.setdefault(v["signature"], []).append(v)
    while len(chosen) < 20 and any(by_sig.values()):
        for sig in list(by_sig):
            if by_sig[sig] and len(chosen) < 20:
                chosen.append(by_sig[sig].pop(0))
    lines = []
    for i, v in enumerate(chosen, 1):
        path = os.path.join(rdir, "%s-%04d.json" % (prop, i))
        with open(path, "w") as f:
            json.dump(v, f, indent=1)
        lines.append("VIOLATION property=%s replay=%s   # %s: %s" % (prop, path, v["signature"], v["message"][:200]))

    wall = time.time() - t0
    # ---- evidence --------------------------------------------------------------------------------
    nt_counters = {k[len("nontrivial:"):]: v for k, v in counters.items() if k.startswith("nontrivial:")}
    other = {k: v for k, v in counters.items() if not k.startswith(("nontrivial:", "violations:"))}
    bounds = mod.bounds(tier) if hasattr(mod, "bounds") else {}
    exhaustive = not caps and not harness_errors
    evidence = {
        "property_id": prop,
        "tier": tier,
        "seed": seed,
        "level": "model_checking",
        "coverage": {
            "states": len(states),
            "transitions": transitions,
            "traces_validated_against_impl": validated,
            "samples": samples if samples else ["(no case executed)"],
            "evaluations": evaluations,
            "distinct_nontrivial": len(nontrivial),
            "rule": getattr(mod, "RULE", ""),
            "distinct_outcomes": len(outcomes),
            "exhaustive": exhaustive,
            "caps_hit": caps,
            "bounds": jsonable(bounds),
            "nontrivial_counters": nt_counters,
            "counters": other,
            "info": jsonable(info),
            "hash_seeds": [(seed + g) % (2 ** 32) for g in range(groups)],
            "workers": len(procs),
            "known_findings_hit": {k["sig"]: k["hits"] for k in known if k["hits"]},
            "explanation": getattr(mod, "EXPLANATION", ""),
        },
        "assumptions": getattr(mod, "ASSUMPTIONS", []),
        "wall_s": round(wall, 2),
        "violations": unmatched_total,
    }
    os.makedirs(os.path.join(VERIF, "evidence"), exist_ok=True)
    with open(os.path.join(VERIF, "evidence", prop + ".json"), "w") as f:
        json.dump(evidence, f, indent=1, sort_keys=True)
        f.write("\n")

    # ---- report ----------------------------------------------------------------------------------
    print("%s tier=%s seed=%d: states=%d transitions=%d validated=%d evaluations=%d outcomes=%d nontrivial=%d wall=%.1fs%s"
          % (prop, tier, seed, len(states), transitions, validated, evaluations, len(outcomes),
             len(nontrivial), wall, " CAPPED:" + ",".join(caps) if caps else ""))
    if nt_counters:
        print("  nontrivial: " + ", ".join("%s=%d" % kv for kv in sorted(nt_counters.items())))
    for k in known:
        if k["hits"]:
            print("KNOWN-FINDING: property=%s %s (%d cases this run)" % (prop, k["text"], k["hits"]))
    if harness_errors:
        for h in harness_errors[:3]:
            print("HARNESS-ERROR %s" % h)
        return 2
    if unmatched_total:
        for ln in lines:
            print(ln)
        print("%s: %d violating cases (%d signatures), %d replay files written"
              % (prop, unmatched_total, len({v['signature'] for v in unmatched}), len(chosen)))
        return 1
    print("%s: property held on everything explored" % prop)
    return 0


def replay(path):
    v = json.load(open(path))
    prop = v["property"]
    env.assert_persim_from_repo()
    mod = importlib.import_module("checks." + prop.lower())
    ctx = Ctx(prop, v.get("tier", "quick"), replay=True)
    ctx.call_variants = int(getattr(mod, "CALL_VARIANTS", 0))
    case = unjson(v["case"])
    if hasattr(mod, "decode_case"):
        case = mod.decode_case(case)
    ctx.run_case(mod, case)
    print("replay %s  case=%s" % (path, json.dumps(jsonable(case))[:400]))
    known = load_known(prop)
    rc = 0
    for w in ctx.violations:
        tag = "KNOWN-FINDING" if any(k["sig"] == w["signature"] for k in known) else "VIOLATION"
        if tag == "VIOLATION":
            rc = 1
            print("VIOLATION property=%s replay=%s" % (prop, path))
        print("  %s %s: %s\n    observed=%s\n    expected=%s"
              % (tag, w["signature"], w["message"], json.dumps(w["observed"])[:600], json.dumps(w["expected"])[:600]))
    if not ctx.violations:
        print("  not reproduced: the property holds on this case for the current tree")
    return rc


def replay_case(path):
    """pytest-style helper: assert that a recorded case no longer violates its property."""
    assert replay(path) == 0


def main(argv=None):
    ap = argparse.ArgumentParser()
    ap.add_argument("prop", nargs="?")
    ap.add_argument("--tier", default=os.environ.get("VERIF_TIER", "quick"), choices=["quick", "thorough"])
    ap.add_argument("--replay")
    ap.add_argument("--selftest", action="store_true")
    a = ap.parse_args(argv)
    seed = int(os.environ.get("VERIF_SEED", "0") or 0)
    if a.selftest:
        from mc import selftest

        return selftest.main()
    if a.replay:
        return replay(a.replay)
    if not a.prop:
        ap.error("property id required")
    return run_check(a.prop.upper(), a.tier, seed)


if __name__ == "__main__":
    sys.exit(main())
