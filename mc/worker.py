"""One shard of one check, in a fresh process with its own PYTHONHASHSEED.

usage: python -m mc.worker CNN tier shard nshards group ngroups seed outfile
"""
import importlib
import pickle
import sys
import traceback

from mc import env  # noqa: F401  (must come first: sys.path, guard, backend)
from mc.ctx import Ctx, FailFast, HarnessError


def default_run_shard(mod, ctx):
    for i, case in enumerate(mod.cases(ctx.tier)):
        if i % ctx.nshards != ctx.shard:
            continue
        ctx.run_case(mod, case)


def main(argv):
    prop, tier = argv[0], argv[1]
    shard, nshards, group, ngroups, seed = (int(x) for x in argv[2:7])
    out = argv[7]
    env.assert_persim_from_repo()
    mod = importlib.import_module("checks." + prop.lower())
    ctx = Ctx(prop, tier, shard, nshards, seed, group, ngroups)
    ctx.call_variants = int(getattr(mod, "CALL_VARIANTS", 0))
    status = {"ok": True}
    try:
        if hasattr(mod, "run_shard"):
            mod.run_shard(ctx)
        else:
            default_run_shard(mod, ctx)
    except FailFast:
        pass
    except HarnessError as e:
        status = {"ok": False, "error": "HarnessError: %s" % e}
    except Exception as e:  # noqa: BLE001
        status = {"ok": False, "error": "".join(traceback.format_exception(type(e), e, e.__traceback__))}
    d = ctx.dump()
    d["status"] = status
    with open(out, "wb") as f:
        pickle.dump(d, f)
    return 0 if status["ok"] else 2


if __name__ == "__main__":
    sys.exit(main(sys.argv[1:]))
