"""Per-worker bookkeeping: counters, state/outcome sets, violations, watchdog.

Everything a check observes goes through a Ctx so that the evidence file reports what was
actually executed (never constants) and so that every violation becomes a replayable case.
"""
import collections
import hashlib
import json
import math
import signal
import traceback

import numpy as np


class HarnessError(Exception):
    """A defect of the verification machinery itself (exit code 2, never a VIOLATION)."""


class CaseTimeout(Exception):
    pass


def _alarm(signum, frame):
    raise CaseTimeout()


def jsonable(x):
    """Canonical JSON-able form (tuples -> lists, numpy -> python, inf/nan -> strings)."""
    if isinstance(x, (str, bool)) or x is None:
        return x
    if isinstance(x, (int, np.integer)):
        return int(x)
    if isinstance(x, (float, np.floating)):
        x = float(x)
        if math.isnan(x):
            return "nan"
        if math.isinf(x):
            return "inf" if x > 0 else "-inf"
        return x
    if isinstance(x, complex):
        return "complex(%r,%r)" % (x.real, x.imag)
    if isinstance(x, np.ndarray):
        return jsonable(x.tolist())
    if isinstance(x, dict):
        return {str(k): jsonable(v) for k, v in x.items()}
    if isinstance(x, (list, tuple, set, frozenset)):
        return [jsonable(v) for v in x]
    return repr(x)


def unjson(x):
    """Inverse of jsonable for numbers: "inf"/"-inf"/"nan" strings back to floats."""
    if isinstance(x, str):
        if x == "inf":
            return float("inf")
        if x == "-inf":
            return float("-inf")
        if x == "nan":
            return float("nan")
        return x
    if isinstance(x, list):
        return [unjson(v) for v in x]
    if isinstance(x, dict):
        return {k: unjson(v) for k, v in x.items()}
    return x


def stable_hash(obj):
    """64-bit hash that does not depend on PYTHONHASHSEED (workers run under different seeds)."""
    if not isinstance(obj, (str, bytes)):
        obj = json.dumps(jsonable(obj), sort_keys=True)
    if isinstance(obj, str):
        obj = obj.encode()
    return int.from_bytes(hashlib.blake2b(obj, digest_size=8).digest(), "big")


def _snap(x, depth=0):
    """Byte-level snapshot of the data an argument carries (arrays, nested lists/tuples/dicts of them);
    anything else (callables, estimators, landscapes, scalars) is not snapshotted."""
    if isinstance(x, np.ndarray):
        return ("nd", x.dtype.str, x.shape, x.tobytes() if x.dtype != object else repr(x.tolist()))
    if isinstance(x, (list, tuple)) and depth < 4:
        return (type(x).__name__, tuple(_snap(v, depth + 1) for v in x))
    if isinstance(x, dict) and depth < 4:
        return ("dict", tuple((repr(k), _snap(v, depth + 1)) for k, v in x.items()))
    if isinstance(x, (int, float, str, bool)) or x is None:
        return ("s", repr(x))
    if hasattr(x, "tocsr") and hasattr(x, "nnz"):
        try:
            c = x.tocoo()
            return ("sp", type(x).__name__, c.shape, c.row.tobytes(), c.col.tobytes(), c.data.tobytes())
        except Exception:  # noqa: BLE001
            return None
    return None


class Ctx:
    CASE_TIMEOUT_S = 60
    MAX_STORED_VIOLATIONS = 60
    SELFCHECK_CASES = 8

    def __init__(self, prop, tier, shard=0, nshards=1, seed=0, group=0, ngroups=1, replay=False):
        self.prop = prop
        self.tier = tier
        self.shard = shard
        self.nshards = nshards
        self.seed = seed
        self.group = group
        self.ngroups = ngroups
        self.replay = replay
        self.counters = collections.Counter()
        self.states = set()
        self.outcomes = set()
        self.nontrivial = set()
        self.transitions = 0
        self.validated = 0
        self.evaluations = 0
        self.violations = []
        self.violation_count = 0
        self._vio_keys = set()
        self.samples = []
        self.info = {}
        self.caps = []
        self.case = None
        self._obs = []
        self._scratch = False

    # ---- bookkeeping -------------------------------------------------------------------
    def state(self, key):
        self.states.add(stable_hash(key))

    def outcome(self, val):
        h = stable_hash(val)
        self.outcomes.add(h)
        self._obs.append(h)

    def nontriv(self, tag, key=None):
        self.counters["nontrivial:" + tag] += 1
        self.nontrivial.add(stable_hash(key if key is not None else self.case))

    def count(self, tag, n=1):
        self.counters[tag] += n

    def trans(self, n=1):
        self.transitions += n

    def valid(self, n=1):
        self.validated += n

    def call(self, fn, *a, **kw):
        """Execute one real persim entry point (counts as one explorer transition).  Array / list
        arguments are snapshotted before and compared after the call (also when it raises): a public
        call that writes into its arguments is reported by every check, at every call site."""
        self.transitions += 1
        before = [_snap(x) for x in a] + [_snap(kw[k]) for k in sorted(kw)]
        try:
            return fn(*a, **kw)
        finally:
            after = [_snap(x) for x in a] + [_snap(kw[k]) for k in sorted(kw)]
            if after != before:
                pos = [i for i, (x, y) in enumerate(zip(before, after)) if x != y]
                self.violation("argument-modified", "%s modified its argument(s) at position(s) %r in place" % (getattr(fn, "__name__", repr(fn)), pos),
                               observed=[jsonable(x) for x in a], extra={"entry": getattr(fn, "__name__", repr(fn)), "positions": pos})

    def cap(self, what):
        if what not in self.caps:
            self.caps.append(what)

    def sample(self, s):
        if len(self.samples) < 4:
            self.samples.append(jsonable(s))

    # ---- violations --------------------------------------------------------------------
    def violation(self, sig, msg, observed=None, expected=None, case=None, extra=None):
        """Record a property violation. `sig` identifies the failing site/input class and is
        what known_findings.txt is matched against."""
        case = self.case if case is None else case
        self._obs.append(stable_hash(("VIOLATION", sig)))
        key = stable_hash((sig, case))
        if key in self._vio_keys:
            return
        self._vio_keys.add(key)
        self.violation_count += 1
        self.counters["violations:" + sig] += 1
        if len(self.violations) < self.MAX_STORED_VIOLATIONS or self.replay:
            self.violations.append(
                {
                    "property": self.prop,
                    "signature": sig,
                    "message": msg,
                    "observed": jsonable(observed),
                    "expected": jsonable(expected),
                    "case": jsonable(case),
                    "extra": jsonable(extra),
                    "tier": self.tier,
                }
            )

    # ---- running cases -----------------------------------------------------------------
    def run_case(self, mod, case, fn=None):
        """Run one case under the watchdog; persim exceptions and hangs become violations."""
        fn = fn or mod.run_case
        self.case = case
        self.evaluations += 1
        self._obs = []
        if not self._scratch:
            self.sample(case)
        import time as _t

        t0 = _t.time()
        self._guarded(fn, case)
        elapsed = _t.time() - t0
        obs = self._obs
        if (
            elapsed < 0.25
            and not self._scratch
            and not self.replay
            and self.counters["selfcheck_cases"] < self.SELFCHECK_CASES
            and getattr(mod, "DETERMINISTIC", True)
        ):
            # replay-determinism self-check: same case, fresh bookkeeping, identical observations
            self.counters["selfcheck_cases"] += 1
            twin = Ctx(self.prop, self.tier, self.shard, self.nshards, self.seed, self.group, self.ngroups)
            twin._scratch = True
            twin.case = case
            twin._guarded(fn, case)
            if twin._obs != obs:
                # the same case, re-executed at once in the same process, observed something else:
                # the result is not a function of the inputs (hidden state carried between calls)
                self.case = case
                self.violation(
                    "history-dependent-result",
                    "re-executing the same case immediately gives different observations: the code under "
                    "test carries state between calls (or the harness is nondeterministic)",
                )
        self.case = None

    def _guarded(self, fn, case):
        old = signal.signal(signal.SIGALRM, _alarm)
        signal.alarm(self.CASE_TIMEOUT_S)
        try:
            fn(case, self)
        except CaseTimeout:
            self.violation(
                "timeout", "persim call did not terminate within %ds" % self.CASE_TIMEOUT_S
            )
        except HarnessError:
            raise
        except Exception as e:  # noqa: BLE001 - a crash of the code under test is a finding
            tb = traceback.extract_tb(e.__traceback__)
            site = "?"
            for fr in reversed(tb):
                if "/persim/" in fr.filename:
                    site = "%s:%s" % (fr.filename.split("/persim/")[-1], fr.name)
                    break
            else:
                # raised while the oracle digested persim's result (malformed shape/type/None...)
                fr = tb[-1]
                site = "oracle:%s:%s" % (fr.filename.split("/")[-1], fr.name)
            self.violation(
                "exception:%s@%s" % (type(e).__name__, site),
                "unexpected %s: %s" % (type(e).__name__, e),
                observed="".join(traceback.format_exception_only(type(e), e)).strip(),
                extra="".join(traceback.format_exception(type(e), e, e.__traceback__))[-2000:],
            )
        finally:
            signal.alarm(0)
            signal.signal(signal.SIGALRM, old)

    # ---- (de)serialisation between worker and runner -------------------------------------
    def dump(self):
        return {
            "counters": dict(self.counters),
            "states": self.states,
            "outcomes": self.outcomes,
            "nontrivial": self.nontrivial,
            "transitions": self.transitions,
            "validated": self.validated,
            "evaluations": self.evaluations,
            "violations": self.violations,
            "violation_count": self.violation_count,
            "samples": self.samples,
            "info": self.info,
            "caps": self.caps,
            "group": self.group,
        }
