"""Per-worker bookkeeping: counters, state/outcome sets, violations, watchdog.

Everything a check observes goes through a Ctx so that the evidence file reports what was
actually executed (never constants) and so that every violation becomes a replayable case.
"""
import collections
import hashlib
import json
import math
import os
import signal
import traceback

import numpy as np


class HarnessError(Exception):
    """A defect of the verification machinery itself (exit code 2, never a VIOLATION)."""


class FailFast(BaseException):
    """VERIF_FAILFAST=1 (mutation screening only, never a registered command): stop exploring once any worker of
    the run has recorded a violation."""


def _failfast_flag():
    d = os.environ.get("VERIF_SHARED")
    return os.path.join(d, "failfast") if d and os.environ.get("VERIF_FAILFAST") == "1" else None


class CaseTimeout(Exception):
    pass


def _alarm(signum, frame):
    raise CaseTimeout()


def jsonable(x):
    """Canonical JSON-able form (tuples -> lists, numpy -> python, inf/nan -> strings)."""
    if isinstance(x, (str, bool)) or x is None:
        return x
    if isinstance(x, (int, np.integer)):
        return int(x)
    if isinstance(x, (float, np.floating)):
        x = float(x)
        if math.isnan(x):
            return "nan"
        if math.isinf(x):
            return "inf" if x > 0 else "-inf"
        return x
    if isinstance(x, complex):
        return "complex(%r,%r)" % (x.real, x.imag)
    if isinstance(x, np.ndarray):
        return jsonable(x.tolist())
    if isinstance(x, dict):
        return {str(k): jsonable(v) for k, v in x.items()}
    if isinstance(x, (list, tuple, set, frozenset)):
        return [jsonable(v) for v in x]
    return repr(x)


def unjson(x):
    """Inverse of jsonable for numbers: "inf"/"-inf"/"nan" strings back to floats."""
    if isinstance(x, str):
        if x == "inf":
            return float("inf")
        if x == "-inf":
            return float("-inf")
        if x == "nan":
            return float("nan")
        return x
    if isinstance(x, list):
        return [unjson(v) for v in x]
    if isinstance(x, dict):
        return {k: unjson(v) for k, v in x.items()}
    return x


def stable_hash(obj):
    """64-bit hash that does not depend on PYTHONHASHSEED (workers run under different seeds)."""
    if not isinstance(obj, (str, bytes)):
        obj = json.dumps(jsonable(obj), sort_keys=True)
    if isinstance(obj, str):
        obj = obj.encode()
    return int.from_bytes(hashlib.blake2b(obj, digest_size=8).digest(), "big")


def _snap(x, depth=0):
    """Byte-level snapshot of the data an argument carries (arrays, nested lists/tuples/dicts of them);
    anything else (callables, estimators, landscapes, scalars) is not snapshotted."""
    if isinstance(x, np.ndarray):
        return ("nd", x.dtype.str, x.shape, x.tobytes() if x.dtype != object else repr(x.tolist()))
    if isinstance(x, (list, tuple)) and depth < 4:
        return (type(x).__name__, tuple(_snap(v, depth + 1) for v in x))
    if isinstance(x, dict) and depth < 4:
        return ("dict", tuple((repr(k), _snap(v, depth + 1)) for k, v in x.items()))
    if isinstance(x, (int, float, str, bool)) or x is None:
        return ("s", repr(x))
    if hasattr(x, "tocsr") and hasattr(x, "nnz"):
        try:
            c = x.tocoo()
            return ("sp", type(x).__name__, c.shape, c.row.tobytes(), c.col.tobytes(), c.data.tobytes())
        except Exception:  # noqa: BLE001
            return None
    return None


# ---- representation variants of array arguments (same values, other memory layout / flags) ---------
VARIANT_ENTRY_POINTS = set()
VARIANT_ENTRY_POINTS |= {"bottleneck", "wasserstein", "heat", "sliced_wasserstein", "persistent_entropy", "transform",
                        "gaussian", "bvn_cdf", "sbvn_cdf", "uniform", "norm_cdf", "death_vector", "linear_ramp", "persistence"}
VARIANT_ENTRY_POINTS |= {"PersLandscapeExact", "PersLandscapeApprox"}
ELEMENTWISE_ENTRY_POINTS = {"gaussian", "bvn_cdf", "sbvn_cdf", "uniform", "norm_cdf", "linear_ramp", "persistence"}
VARIANT_NAMES = ["fortran-order", "strided-view", "read-only", "negative-stride-view", "reused-buffer",
                 "byte-swapped", "float32-if-exact", "float16-if-exact"]
_BUFFERS = {}


def _reused_buffers(x, path=(), fill=True, fresh=None):
    """x with every ndarray replaced by a PERSISTENT buffer object of the same shape/dtype (one per argument
    position, kept for the life of the process): the same objects, with other contents, come back on every
    later call - what a caller who refills a preallocated array does.  fill=False returns the buffers with
    the contents a previous call left in them (`fresh` collects True for buffers that did not exist yet)."""
    if isinstance(x, np.ndarray) and x.ndim >= 1 and x.size > 0 and x.dtype != object:
        key = (path, x.shape, x.dtype.str)
        buf = _BUFFERS.get(key)
        if buf is None:
            buf = _BUFFERS[key] = np.zeros(x.shape, dtype=x.dtype)
            if fresh is not None:
                fresh.append(True)
        if fill:
            buf[...] = x
        return buf
    if isinstance(x, list) and len(path) < 4:
        return [_reused_buffers(v, path + (i,), fill, fresh) for i, v in enumerate(x)]
    if isinstance(x, tuple) and len(path) < 4:
        return tuple(_reused_buffers(v, path + (i,), fill, fresh) for i, v in enumerate(x))
    return x


def _variant_of(x, kind, depth=0):
    """x with every ndarray inside replaced by an equal-valued array in another layout."""
    if isinstance(x, np.ndarray) and x.ndim >= 1 and x.size > 0 and x.dtype != object:
        if kind == 0:
            return np.asfortranarray(x.copy())
        if kind == 1:
            big = np.zeros(tuple(2 * n for n in x.shape), dtype=x.dtype)
            view = big[tuple(slice(None, None, 2) for _ in x.shape)]
            view[...] = x
            return view
        if kind == 2:
            y = x.copy()
            y.setflags(write=False)
            return y
        if kind == 3:
            return x[::-1].copy()[::-1]
        if kind == 5:
            # the same values in the other byte order (arrays read from files / buffers of another endianness)
            return x.astype(x.dtype.newbyteorder()) if x.dtype.kind in "fiu" and x.dtype.itemsize > 1 else x
        if kind in (6, 7):
            # the same values in a narrower floating type, only where every finite value is exactly representable there
            nt = np.float32 if kind == 6 else np.float16
            if x.dtype.kind == "f" and x.dtype.itemsize > np.dtype(nt).itemsize:
                with np.errstate(all="ignore"):
                    y = x.astype(nt)
                if np.array_equal(y.astype(x.dtype), x, equal_nan=True):
                    return y
            return x
        return x
    if isinstance(x, list) and depth < 3:
        return [_variant_of(v, kind, depth + 1) for v in x]
    if isinstance(x, tuple) and depth < 3:
        return tuple(_variant_of(v, kind, depth + 1) for v in x)
    return x


def _has_array(x, depth=0):
    if isinstance(x, np.ndarray):
        return x.ndim >= 1 and x.size > 0 and x.dtype != object
    if isinstance(x, (list, tuple)) and depth < 3:
        return any(_has_array(v, depth + 1) for v in x)
    return False


def _sizes(x, out, depth=0):
    if isinstance(x, np.ndarray):
        out.add(int(x.size))
        for n in x.shape:
            out.add(int(n))
    elif isinstance(x, (list, tuple)) and depth < 3:
        for v in x:
            _sizes(v, out, depth + 1)


def _poison_heap(a, kw):
    """Fill freshly freed heap blocks of the sizes the callee is likely to allocate with NaN: a result buffer
    obtained with np.empty and not written completely then shows as NaN instead of (by luck) zeros."""
    sizes = set()
    _sizes(a, sizes)
    _sizes(list(kw.values()), sizes)
    junk = []
    for n in sorted(sizes):
        if 0 < n <= 200000:
            for m in (n, n + 1, 2 * n, n * n if n <= 400 else n):
                junk.append(np.full(m, np.nan))
    del junk


def _snap_result(r, depth=0):
    if isinstance(r, np.ndarray):
        return ("nd", r.shape, r.tobytes() if r.dtype != object else repr(r.tolist()))
    if isinstance(r, (tuple, list)) and depth < 3:
        return tuple(_snap_result(v, depth + 1) for v in r)
    if hasattr(r, "values") and hasattr(r, "num_steps"):
        return _snap_result(np.asarray(r.values))
    if hasattr(r, "critical_pairs"):
        return repr(r.critical_pairs)
    return None


def _same_result(a, b, rtol=1e-11):
    """Equality of two results of the same call up to summation-order round-off."""
    if isinstance(a, (tuple, list)) and isinstance(b, (tuple, list)):
        return len(a) == len(b) and all(_same_result(x, y, rtol) for x, y in zip(a, b))
    if isinstance(a, np.ndarray) or isinstance(b, np.ndarray):
        try:
            a, b = np.asarray(a), np.asarray(b)
            if a.shape != b.shape:
                return False
            if a.dtype.kind in "fiub" and b.dtype.kind in "fiub":
                a, b = a.astype(float), b.astype(float)
                sc = max(1e-300, float(np.nanmax(np.abs(a))) if a.size else 0.0)
                return bool(np.all((np.abs(a - b) <= rtol * sc) | ((a != a) & (b != b))))
            return bool(np.all(a == b))
        except Exception:  # noqa: BLE001
            return False
    if isinstance(a, (int, float, np.integer, np.floating)) and isinstance(b, (int, float, np.integer, np.floating)):
        a, b = float(a), float(b)
        return (a != a and b != b) or abs(a - b) <= rtol * max(abs(a), abs(b), 1e-300) or a == b
    if hasattr(a, "values") and hasattr(b, "values") and hasattr(a, "num_steps"):
        return _same_result(np.asarray(a.values), np.asarray(b.values), rtol)
    if hasattr(a, "critical_pairs") and hasattr(b, "critical_pairs"):
        return _same_result([[list(map(float, p)) for p in d] for d in a.critical_pairs], [[list(map(float, p)) for p in d] for d in b.critical_pairs], rtol)
    try:
        return bool(a == b)
    except Exception:  # noqa: BLE001
        return True


class Ctx:
    CASE_TIMEOUT_S = 60
    MAX_STORED_VIOLATIONS = 60
    MAX_STORED_PER_SIGNATURE = 6
    SELFCHECK_CASES = 8

    def __init__(self, prop, tier, shard=0, nshards=1, seed=0, group=0, ngroups=1, replay=False):
        self.prop = prop
        self.tier = tier
        self.shard = shard
        self.nshards = nshards
        self.seed = seed
        self.group = group
        self.ngroups = ngroups
        self.replay = replay
        self.counters = collections.Counter()
        self.states = set()
        self.outcomes = set()
        self.nontrivial = set()
        self.transitions = 0
        self.validated = 0
        self.evaluations = 0
        self.violations = []
        self.violation_count = 0
        self._vio_keys = set()
        self.samples = []
        self.info = {}
        self.caps = []
        self.case = None
        self._obs = []
        self._scratch = False
        self.call_variants = False      # set from the check module's CALL_VARIANTS
        self._last_results = {}
        self._variant_counter = 0

    # ---- bookkeeping -------------------------------------------------------------------
    def state(self, key):
        self.states.add(stable_hash(key))

    def outcome(self, val):
        h = stable_hash(val)
        self.outcomes.add(h)
        self._obs.append(h)

    def nontriv(self, tag, key=None):
        self.counters["nontrivial:" + tag] += 1
        self.nontrivial.add(stable_hash(key if key is not None else self.case))

    def count(self, tag, n=1):
        self.counters[tag] += n

    def trans(self, n=1):
        self.transitions += n

    def valid(self, n=1):
        self.validated += n

    def call(self, fn, *a, **kw):
        """Execute one real persim entry point (counts as one explorer transition).  Array / list
        arguments are snapshotted before and compared after the call (also when it raises): a public
        call that writes into its arguments is reported by every check, at every call site."""
        self.transitions += 1
        before = [_snap(x) for x in a] + [_snap(kw[k]) for k in sorted(kw)]
        if self.call_variants and getattr(fn, "__name__", "") in VARIANT_ENTRY_POINTS:
            _poison_heap(a, kw)
        ok = False
        try:
            r = fn(*a, **kw)
            ok = True
            return r
        finally:
            after = [_snap(x) for x in a] + [_snap(kw[k]) for k in sorted(kw)]
            if after != before:
                pos = [i for i, (x, y) in enumerate(zip(before, after)) if x != y]
                self.violation("argument-modified", "%s modified its argument(s) at position(s) %r in place" % (getattr(fn, "__name__", repr(fn)), pos),
                               observed=[jsonable(x) for x in a], extra={"entry": getattr(fn, "__name__", repr(fn)), "positions": pos})
            elif ok and self.call_variants and getattr(fn, "__name__", "") in VARIANT_ENTRY_POINTS and (_has_array(a) or _has_array(list(kw.values()))):
                self._result_alias_check(fn, r)
                self._variant_call(fn, a, kw, r)

    def _result_alias_check(self, fn, r):
        """A result handed out earlier must not change when the same entry point is called again
        (a returned scratch / cache array that the next call overwrites)."""
        name = getattr(fn, "__name__", repr(fn))
        prev = self._last_results.get(name)
        if prev is not None:
            obj, snap = prev
            self.validated += 1
            if _snap_result(obj) != snap:
                self.violation("result-overwritten", "a result returned by an earlier call of %s changed when %s was called again (results share a buffer)" % (name, name),
                               extra={"entry": name})
        self._last_results[name] = (r, _snap_result(r))

    def _variant_call(self, fn, a, kw, base):
        """The same call once more with every array argument in another memory layout (rotating through
        Fortran order / strided view / read-only copy / negative-stride view) and with the global random
        generators in another state: the result is a function of the VALUES passed, nothing else."""
        import random
        import warnings

        self._variant_counter += 1
        stride = int(self.call_variants)          # CALL_VARIANTS = k: every k-th eligible call gets a variant
        if stride > 1 and self._variant_counter % stride:
            return
        kind = (self._variant_counter // max(1, stride)) % len(VARIANT_NAMES)
        if VARIANT_NAMES[kind].startswith("float") and getattr(fn, "__name__", "") in ELEMENTWISE_ENTRY_POINTS:
            # element-wise kernels / weights follow NumPy's convention (single precision in, single precision
            # out): the narrow-float variants apply to the entry points that take DIAGRAMS
            kind = 0
        name = getattr(fn, "__name__", repr(fn))
        if VARIANT_NAMES[kind] == "reused-buffer":
            # first the same call on what an EARLIER call left in the buffers (result discarded, any
            # exception ignored: old contents need not fit the other parameters), then on the refilled buffers
            fresh = []
            a1 = tuple(_reused_buffers(x, (name, i), False, fresh) for i, x in enumerate(a))
            kw1 = {k: _reused_buffers(v, (name, k), False, fresh) for k, v in kw.items()}
            if not fresh:
                try:
                    with warnings.catch_warnings():
                        warnings.simplefilter("ignore")
                        fn(*a1, **kw1)
                    self.transitions += 1
                except CaseTimeout:
                    raise
                except Exception:  # noqa: BLE001
                    pass
            a2 = tuple(_reused_buffers(x, (name, i)) for i, x in enumerate(a))
            kw2 = {k: _reused_buffers(v, (name, k)) for k, v in kw.items()}
        else:
            a2 = tuple(_variant_of(x, kind) for x in a)
            kw2 = {k: _variant_of(v, kind) for k, v in kw.items()}
        st = np.random.get_state()
        pst = random.getstate()
        np.random.seed(self._variant_counter % 9973)
        random.seed(self._variant_counter)
        self.transitions += 1
        self.counters["variant_calls:" + VARIANT_NAMES[kind]] += 1
        try:
            with warnings.catch_warnings():
                warnings.simplefilter("ignore")
                r2 = fn(*a2, **kw2)
        except CaseTimeout:
            raise
        except Exception as e:  # noqa: BLE001
            self.violation("layout-exception:%s" % type(e).__name__, "%s raises %s: %s when the same values are passed as %s arrays" % (name, type(e).__name__, e, VARIANT_NAMES[kind]),
                           observed=[jsonable(x) for x in a], extra={"entry": name, "variant": VARIANT_NAMES[kind]})
            return
        finally:
            np.random.set_state(st)
            random.setstate(pst)
        self.validated += 1
        if not _same_result(base, r2):
            self.violation("layout-dependent", "%s returns another result when the same values are passed as %s arrays (and the global random generators are in another state)" % (name, VARIANT_NAMES[kind]),
                           observed=jsonable(r2) if not hasattr(r2, "__dict__") else repr(r2), expected=jsonable(base) if not hasattr(base, "__dict__") else repr(base),
                           extra={"entry": name, "variant": VARIANT_NAMES[kind], "args": [jsonable(x) for x in a]})

    def cap(self, what):
        if what not in self.caps:
            self.caps.append(what)

    def sample(self, s):
        if len(self.samples) < 4:
            self.samples.append(jsonable(s))

    # ---- violations --------------------------------------------------------------------
    def violation(self, sig, msg, observed=None, expected=None, case=None, extra=None):
        """Record a property violation. `sig` identifies the failing site/input class and is
        what known_findings.txt is matched against."""
        case = self.case if case is None else case
        self._obs.append(stable_hash(("VIOLATION", sig)))
        key = stable_hash((sig, case))
        if key in self._vio_keys:
            return
        self._vio_keys.add(key)
        self.violation_count += 1
        self.counters["violations:" + sig] += 1
        # stored per signature (a flood of one signature, e.g. a known finding, must not crowd out another)
        if self.counters["violations:" + sig] <= self.MAX_STORED_PER_SIGNATURE or self.replay:
            self.violations.append(
                {
                    "property": self.prop,
                    "signature": sig,
                    "message": msg,
                    "observed": jsonable(observed),
                    "expected": jsonable(expected),
                    "case": jsonable(case),
                    "extra": jsonable(extra),
                    "tier": self.tier,
                }
            )
        flag = _failfast_flag()
        if flag and not self._scratch and not self.replay:
            open(flag, "a").close()

    # ---- running cases -----------------------------------------------------------------
    def run_case(self, mod, case, fn=None):
        """Run one case under the watchdog; persim exceptions and hangs become violations."""
        fn = fn or mod.run_case
        flag = _failfast_flag()
        if flag and not self._scratch and os.path.exists(flag):
            raise FailFast()
        self.case = case
        self.evaluations += 1
        self._obs = []
        if not self._scratch:
            self.sample(case)
        import time as _t

        t0 = _t.time()
        # the rotation of representation variants restarts per case (a replay of the case sees the same ones)
        self._variant_counter = self._variant_counter_at_case_start = stable_hash(case) & 0xFFFF
        self._guarded(fn, case)
        elapsed = _t.time() - t0
        obs = self._obs
        if (
            elapsed < 0.25
            and not self._scratch
            and not self.replay
            and self.counters["selfcheck_cases"] < self.SELFCHECK_CASES
            and getattr(mod, "DETERMINISTIC", True)
        ):
            # replay-determinism self-check: same case, fresh bookkeeping, identical observations
            self.counters["selfcheck_cases"] += 1
            twin = Ctx(self.prop, self.tier, self.shard, self.nshards, self.seed, self.group, self.ngroups)
            twin._scratch = True
            twin.call_variants = self.call_variants
            twin._variant_counter = self._variant_counter_at_case_start
            twin.case = case
            twin._guarded(fn, case)
            if twin._obs != obs:
                # the same case, re-executed at once in the same process, observed something else:
                # the result is not a function of the inputs (hidden state carried between calls)
                self.case = case
                self.violation(
                    "history-dependent-result",
                    "re-executing the same case immediately gives different observations: the code under "
                    "test carries state between calls (or the harness is nondeterministic)",
                )
        self.case = None

    def _guarded(self, fn, case):
        old = signal.signal(signal.SIGALRM, _alarm)
        oldp = signal.signal(signal.SIGPROF, _alarm)
        # the budget is CPU time of this process (a loaded machine must not turn a slow case into a finding);
        # a generous wall-clock alarm backs it up.  Thorough cases are larger (whole rows of a pair table, long
        # parameter sweeps): 15x the budget
        budget = self.CASE_TIMEOUT_S if self.tier == "quick" else 15 * self.CASE_TIMEOUT_S
        signal.setitimer(signal.ITIMER_PROF, budget)
        signal.alarm(10 * budget)
        try:
            fn(case, self)
        except CaseTimeout:
            self.violation(
                "timeout", "persim call did not terminate within %ds of CPU time" % (self.CASE_TIMEOUT_S if self.tier == "quick" else 15 * self.CASE_TIMEOUT_S)
            )
        except HarnessError:
            raise
        except Exception as e:  # noqa: BLE001 - a crash of the code under test is a finding
            tb = traceback.extract_tb(e.__traceback__)
            site = "?"
            for fr in reversed(tb):
                if "/persim/" in fr.filename:
                    site = "%s:%s" % (fr.filename.split("/persim/")[-1], fr.name)
                    break
            else:
                # raised while the oracle digested persim's result (malformed shape/type/None...)
                fr = tb[-1]
                site = "oracle:%s:%s" % (fr.filename.split("/")[-1], fr.name)
            self.violation(
                "exception:%s@%s" % (type(e).__name__, site),
                "unexpected %s: %s" % (type(e).__name__, e),
                observed="".join(traceback.format_exception_only(type(e), e)).strip(),
                extra="".join(traceback.format_exception(type(e), e, e.__traceback__))[-2000:],
            )
        finally:
            signal.alarm(0)
            signal.setitimer(signal.ITIMER_PROF, 0)
            signal.signal(signal.SIGALRM, old)
            signal.signal(signal.SIGPROF, oldp)

    # ---- (de)serialisation between worker and runner -------------------------------------
    def dump(self):
        return {
            "counters": dict(self.counters),
            "states": self.states,
            "outcomes": self.outcomes,
            "nontrivial": self.nontrivial,
            "transitions": self.transitions,
            "validated": self.validated,
            "evaluations": self.evaluations,
            "violations": self.violations,
            "violation_count": self.violation_count,
            "samples": self.samples,
            "info": self.info,
            "caps": self.caps,
            "group": self.group,
        }
