"""Explorer C: stateless, prefix-replay, deviation-bounded exploration of environment answers.

run(chooser) executes the real code; every intercepted nondeterministic call asks
chooser.choose(kind, n_options) and gets the recorded answer while replaying the prefix, the
default answer 0 afterwards.  explore() enumerates every alternative answer at every choice
point within the deviation bound; an optional state key per choice point prunes states whose
alternatives were already expanded (every edge is still executed once on the real code).
"""
import itertools
import math

from mc.ctx import HarnessError


class Chooser:
    def __init__(self, prefix=()):
        self.prefix = list(prefix)
        self.trace = []  # (kind, n_options, chosen, state_key)
        self.key_fn = None

    def choose(self, kind, n):
        i = len(self.trace)
        c = self.prefix[i] if i < len(self.prefix) else 0
        if not (0 <= c < n):
            raise HarnessError("replay divergence: choice %d out of range %d at point %d (%s)" % (c, n, i, kind))
        key = self.key_fn(kind, n) if self.key_fn else None
        self.trace.append((kind, n, c, key))
        return c

    def choices(self):
        return [t[2] for t in self.trace]


def explore(run, deviation_bound=None, use_state_keys=True, max_runs=None):
    """Yield (prefix, trace, result) for every execution.  deviation_bound=None: unbounded
    (terminates through state-key pruning or because the tree is finite)."""
    stack = [[]]
    expanded = set()
    runs = 0
    while stack:
        prefix = stack.pop()
        ch = Chooser(prefix)
        result = run(ch)
        tr = ch.trace
        if [t[2] for t in tr[: len(prefix)]] != list(prefix)[: len(tr)] or len(tr) < len(prefix):
            raise HarnessError("replay divergence: prefix %r not reproduced (trace %r)" % (prefix, [t[:3] for t in tr]))
        runs += 1
        yield prefix, tr, result
        if max_runs and runs >= max_runs:
            return
        for i in range(len(prefix), len(tr)):
            kind, n, c, key = tr[i]
            devs = sum(1 for t in tr[:i] if t[2] != 0)
            if deviation_bound is not None and devs + 1 > deviation_bound:
                continue
            if use_state_keys and key is not None:
                k = (key, devs if deviation_bound is not None else None)
                if k in expanded:
                    continue
                expanded.add(k)
            base = [t[2] for t in tr[:i]]
            for alt in range(n - 1, 0, -1):
                stack.append(base + [alt])


def kth_permutation(n, k):
    """k-th permutation of range(n) in lexicographic order (k = 0 is the identity)."""
    items = list(range(n))
    out = []
    for i in range(n, 0, -1):
        f = math.factorial(i - 1)
        q, k = divmod(k, f)
        out.append(items.pop(q))
    return out
