"""Explorer C seams: nondeterministic calls owned from the harness, no change inside persim.

* HopcroftKarp rank orders: the iteration order of the string-keyed sets in the matching
  routine (what PYTHONHASHSEED changes) is decided by a scheduler-chosen rank per left key.
"""
import contextlib
import itertools
import sys


class RankStr(str):
    """A str whose hash is a scheduler-chosen rank (set/dict iteration order follows it)."""

    RANK = {}
    __slots__ = ()

    def __hash__(self):
        return RankStr.RANK.get(str.__str__(self), 7) + 4096


class HKSeam:
    """Wraps persim.bottleneck.HopcroftKarp; counts how often the seam was reached."""

    def __init__(self):
        self.used = 0
        self.real = None

    def make(self):
        seam = self

        class Shim:
            def __init__(self, graph):
                seam.used += 1
                g2 = {}
                for k, v in graph.items():
                    g2[RankStr(k) if isinstance(k, str) else k] = v
                self._hk = seam.real(g2)

            def maximum_matching(self):
                res = self._hk.maximum_matching()
                out = {}
                for k, v in res.items():
                    k2 = str.__str__(k) if isinstance(k, RankStr) else k
                    v2 = str.__str__(v) if isinstance(v, RankStr) else v
                    out[k2] = v2
                return out

        return Shim

    @contextlib.contextmanager
    def installed(self):
        import persim.bottleneck  # noqa: F401

        mod = sys.modules["persim.bottleneck"]
        if not hasattr(mod, "HopcroftKarp"):
            yield False  # seam unused after a refactor: nothing to intercept
            return
        self.real = mod.HopcroftKarp
        mod.HopcroftKarp = self.make()
        try:
            yield True
        finally:
            mod.HopcroftKarp = self.real

    @staticmethod
    def set_order(order):
        """order: tuple of left-key indices; key order[r] gets rank r."""
        RankStr.RANK = {str(k): r for r, k in enumerate(order)}

    @staticmethod
    def all_orders(n):
        return itertools.permutations(range(n))
