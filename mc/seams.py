"""Explorer C seams: nondeterministic calls owned from the harness, no change inside persim.

* HopcroftKarp rank orders: the iteration order of the string-keyed sets in the matching
  routine (what PYTHONHASHSEED changes) is decided by a scheduler-chosen rank per left key.
"""
import contextlib
import itertools
import sys


class RankStr(str):
    """A str whose hash is a scheduler-chosen rank (set/dict iteration order follows it)."""

    RANK = {}
    __slots__ = ()

    def __hash__(self):
        return RankStr.RANK.get(str.__str__(self), 7) + 4096


class HKSeam:
    """Wraps persim.bottleneck.HopcroftKarp; counts how often the seam was reached."""

    def __init__(self):
        self.used = 0
        self.real = None

    def make(self):
        seam = self

        class Shim:
            def __init__(self, graph):
                seam.used += 1
                g2 = {}
                for k, v in graph.items():
                    g2[RankStr(k) if isinstance(k, str) else k] = v
                self._hk = seam.real(g2)

            def maximum_matching(self):
                res = self._hk.maximum_matching()
                out = {}
                for k, v in res.items():
                    k2 = str.__str__(k) if isinstance(k, RankStr) else k
                    v2 = str.__str__(v) if isinstance(v, RankStr) else v
                    out[k2] = v2
                return out

        return Shim

    @contextlib.contextmanager
    def installed(self):
        import persim.bottleneck  # noqa: F401

        mod = sys.modules["persim.bottleneck"]
        if not hasattr(mod, "HopcroftKarp"):
            yield False  # seam unused after a refactor: nothing to intercept
            return
        self.real = mod.HopcroftKarp
        mod.HopcroftKarp = self.make()
        try:
            yield True
        finally:
            mod.HopcroftKarp = self.real

    @staticmethod
    def set_order(order):
        """order: tuple of left-key indices; key order[r] gets rank r."""
        RankStr.RANK = {str(k): r for r, k in enumerate(order)}

    @staticmethod
    def all_orders(n):
        return itertools.permutations(range(n))


# --------------------------------------------------------------------------------------------
# NumPy random draws inside persim.gromov_hausdorff (explorer C)
# --------------------------------------------------------------------------------------------
class UnmodelledNondeterminism(Exception):
    pass


class _RandomSeam:
    def __init__(self, owner):
        self._o = owner

    def permutation(self, n):
        import math

        import numpy as np

        from mc.choices import kth_permutation

        n = int(n)
        k = self._o.chooser.choose("perm", math.factorial(n))
        p = kth_permutation(n, k)
        self._o.last_perm = tuple(p)
        self._o.draws += 1
        return np.array(p)

    def choice(self, n):
        self._o.draws += 1
        return int(self._o.chooser.choose("choice", int(n)))

    def __getattr__(self, name):
        raise UnmodelledNondeterminism("np.random.%s is not owned by the explorer" % name)


class _NPProxy:
    def __init__(self, real, random):
        self.__dict__["_real"] = real
        self.__dict__["random"] = random

    def __getattr__(self, name):
        return getattr(self._real, name)


class MGHSeam:
    """Owns every np.random draw of persim.gromov_hausdorff and tracks the heuristic's summary
    state (direction, goal, mappings tried, best distortion) for state-key pruning."""

    def __init__(self):
        self.chooser = None
        self.draws = 0
        self.last_perm = None
        self.direction = 0
        self.goal = None
        self.tried = 0
        self.best = None
        self.tracked = False
        self.memoize = False
        self.cache = {}

    def key(self, kind, n):
        if not self.tracked:
            return None
        return (kind, n, self.direction, self.goal, self.tried, self.best, self.last_perm if kind == "choice" else None)

    @contextlib.contextmanager
    def installed(self):
        import persim.gromov_hausdorff  # noqa: F401

        gh = sys.modules["persim.gromov_hausdorff"]
        real_np = gh.np
        gh.np = _NPProxy(real_np, _RandomSeam(self))
        saved = {}
        seam = self
        if hasattr(gh, "find_ub_of_min_distortion") and hasattr(gh, "construct_mapping"):
            self.tracked = True
            f_ub, f_cm = gh.find_ub_of_min_distortion, gh.construct_mapping
            saved = {"find_ub_of_min_distortion": f_ub, "construct_mapping": f_cm}

            def ub_wrap(*a, **kw):
                seam.direction += 1
                g = kw.get("goal_distortion", a[3] if len(a) > 3 else 0)
                seam.goal = float(g)
                seam.tried = 0
                seam.best = None
                return f_ub(*a, **kw)

            def cm_wrap(*a, **kw):
                r = f_cm(*a, **kw)
                seam.tried += 1
                d = float(r[1])
                seam.best = d if seam.best is None else min(seam.best, d)
                return r

            gh.find_ub_of_min_distortion = ub_wrap
            gh.construct_mapping = cm_wrap
        else:
            self.tracked = False
        if self.memoize:
            # the deterministic prefix of every execution (distance matrices, lower bound) is the
            # same under every schedule of one pair: compute it once per distinct input, but only
            # cache executions during which no random draw happened
            import numpy as _np

            def memo(name, keyfn):
                fn = getattr(gh, name, None)
                if fn is None:
                    return
                saved.setdefault(name, fn)

                def w(*a, **kw):
                    k = (name, keyfn(*a, **kw))
                    if k in seam.cache:
                        r, warned = seam.cache[k]
                        import warnings as _w

                        for m, c in warned:  # a cached execution re-raises the warnings it raised
                            _w.warn(m, c)
                        return r.copy() if isinstance(r, _np.ndarray) else r
                    d0 = seam.draws
                    import warnings as _w

                    with _w.catch_warnings(record=True) as rec:
                        _w.simplefilter("always")
                        r = fn(*a, **kw)
                    warned = [(str(x.message), x.category) for x in rec]
                    for m, c in warned:
                        _w.warn(m, c)
                    if seam.draws == d0:
                        seam.cache[k] = (r.copy() if isinstance(r, _np.ndarray) else r, warned)
                    return r

                setattr(gh, name, w)

            arrkey = lambda x: (type(x).__name__, x.shape, x.dtype.str, x.tobytes()) if isinstance(x, _np.ndarray) else None  # noqa: E731

            def k_dm(AG):
                k = arrkey(AG)
                return k if k is not None else ("nocache", id(AG), seam.draws, len(seam.cache))

            def k_lb(DX, DY):
                return (arrkey(DX), arrkey(DY))

            memo("make_distance_matrix_from_adjacency_matrix", k_dm)
            memo("find_lb", k_lb)
        try:
            yield gh
        finally:
            gh.np = real_np
            for k, v in saved.items():
                setattr(gh, k, v)

    def start_run(self, chooser):
        self.chooser = chooser
        chooser.key_fn = self.key
        self.direction = 0
        self.goal = None
        self.tried = 0
        self.best = None
        self.last_perm = None


# --------------------------------------------------------------------------------------------
# joblib worker completion order (explorer C)
# --------------------------------------------------------------------------------------------
class _SchedJob:
    def __init__(self, backend, func, callback):
        self.backend, self.func, self.callback = backend, func, callback
        self.done = False
        self.result = None
        self.exc = None

    def run(self):
        try:
            self.result = self.func()
        except BaseException as e:  # noqa: BLE001
            self.exc = e
        self.done = True
        if self.callback is not None:
            self.callback(self)

    def get(self, timeout=None):
        while not self.done:
            self.backend.run_one()
        if self.exc is not None:
            raise self.exc
        return self.result


def make_sched_backend():
    """A joblib backend that queues submitted batches and, when a result is first needed, completes
    the pending batches in an order chosen by the explorer (JoblibSeam.chooser)."""
    from joblib._parallel_backends import ParallelBackendBase

    class SchedBackend(ParallelBackendBase):
        supports_retrieve_callback = False
        uses_threads = True
        supports_sharedmem = True

        def configure(self, n_jobs=1, parallel=None, **kw):
            self.parallel = parallel
            self.pending = []
            JoblibSeam.current.configured += 1
            return self.effective_n_jobs(n_jobs)

        def effective_n_jobs(self, n_jobs):
            if n_jobs is None:
                return 1
            if n_jobs < 0:
                return 4
            return max(1, n_jobs)

        def submit(self, func, callback=None):
            j = _SchedJob(self, func, callback)
            self.pending.append(j)
            JoblibSeam.current.max_pending = max(JoblibSeam.current.max_pending, len(self.pending))
            return j

        def run_one(self):
            k = len(self.pending)
            i = JoblibSeam.current.chooser.choose("complete", k) if k > 1 else 0
            j = self.pending.pop(i)
            JoblibSeam.current.completions += 1
            j.run()

        def retrieve_result(self, out, timeout=None):
            return out.get()

        def abort_everything(self, ensure_ready=True):
            self.pending = []

    return SchedBackend


class JoblibSeam:
    current = None

    def __init__(self):
        self.chooser = None
        self.configured = 0
        self.max_pending = 0
        self.completions = 0
        self._registered = False

    @contextlib.contextmanager
    def installed(self):
        import joblib

        if not self._registered:
            joblib.register_parallel_backend("verif-sched", make_sched_backend())
            self._registered = True
        JoblibSeam.current = self
        with joblib.parallel_config(backend="verif-sched"):
            yield self
