"""Process environment for every check: run the *current working tree* of persim.

Importing this module (first thing in every worker) puts $VERIF_REPO (default /repo) in
front of sys.path, switches the verification guard on and makes matplotlib headless.
persim is pure Python, so "rebuild from the working tree" == import it in a fresh process.
"""
import os
import sys

REPO = os.environ.get("VERIF_REPO", "/repo")
VERIF = os.path.dirname(os.path.dirname(os.path.abspath(__file__)))

os.environ["PERSIM_VERIF"] = "1"
os.environ.setdefault("MPLBACKEND", "Agg")
os.environ.setdefault("PYTHONWARNINGS", "ignore::SyntaxWarning")
os.environ.setdefault("OMP_NUM_THREADS", "1")
os.environ.setdefault("OPENBLAS_NUM_THREADS", "1")
os.environ.setdefault("MKL_NUM_THREADS", "1")
sys.dont_write_bytecode = True
if REPO not in sys.path[:1]:
    sys.path.insert(0, REPO)
if VERIF not in sys.path:
    sys.path.insert(1, VERIF)


def assert_persim_from_repo():
    import persim

    here = os.path.realpath(os.path.dirname(persim.__file__))
    want = os.path.realpath(os.path.join(REPO, "persim"))
    if here != want:
        raise RuntimeError("persim imported from %s, expected %s" % (here, want))

import warnings as _w

_w.filterwarnings("ignore", category=SyntaxWarning)
