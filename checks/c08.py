"""C08 — grid landscapes stay within half a step of the true landscape (explorer A)."""
import io
import contextlib

import numpy as np

from mc.enumerate import multisets_upto
from checks.common import medium_diagram
from oracles import landscape as OL
from oracles import plfun as P

CALL_VARIANTS = True   # every whitelisted persim call is repeated with its arrays in another memory layout (mc/ctx.py)
PROPERTY = "C08"
RULE = (
    "every num_steps in 2..64 (thorough ..300) on a cover of 5 diagrams x 2 grids; medium diagrams of 6..12 (thorough ..35) bars on grids of 5..121 nodes; large diagrams (1100-4400 bars, thorough ..20000) whose bars x nodes product passes 2^20..2^22; ALL multisets of <= n bars with endpoints on the quarter lattice of [0,3] (78 bars, mostly off "
    "grid); per diagram: grids (start,stop) in {(0,3), (-1,4), (0,3.5), tight default, only start given, only stop given} x num_steps in "
    "{2,3,4,5,7,13} (+25,100 thorough), hom_deg 0/1 with a decoy. Oracle: k-th largest tent at every "
    "grid node and depth: |value - truth| <= step/2 (+1e-9), <= 1e-12 when every endpoint is a grid "
    "node, missing depths count as zero. Also vectorize(exact) == the exact landscape's own function "
    "at the nodes, PersistenceLandscaper.fit_transform == PersLandscapeApprox.values (flattened on "
    "request), death_vector == deaths sorted non-increasingly. state = (diagram, grid); transition = "
    "one persim call; non-trivial = some endpoint is not a grid node (snapping happens) and >= 2 depths."
    " Per diagram also: an infinite bar inserted at the first / middle / last row; indexing and vectorize as the first operation on compute=False objects; vectorize of the negated landscape."
)
ASSUMPTIONS = [
    "vectorize is compared with the definition only where the exact landscape itself agrees with it (C03 known finding)",
]
GRIDS = [(0.0, 3.0), (-1.0, 4.0), (0.0, 3.5), None, (-0.5, None), (None, 3.25)]
STEPS = {"quick": [2, 3, 4, 5, 7, 13], "thorough": [2, 3, 4, 5, 7, 13, 25, 100]}


def bounds(tier):
    return {"bars": "quarter lattice of [0,3], b<d (78)", "n": 2 if tier == "quick" else 3, "grids": GRIDS, "num_steps": STEPS[tier]}


def qbars():
    q = [i / 4.0 for i in range(13)]
    return [(b, d) for d in q for b in q if b < d]


SWEEP_COVER = [[[0.0, 3.0]], [[0.25, 1.75], [1.0, 2.5]], [[0.5, 0.75], [0.0, 2.0], [1.5, 3.0]], [[0.0, 1.0], [1.0, 2.0], [2.0, 3.0]],
               [[0.75, 2.25], [0.75, 2.25], [1.25, 1.5]]]


def cases(tier):
    for ci in range(len(SWEEP_COVER)):
        yield {"kind": "steps-sweep", "cover": ci, "hi": 64 if tier == "quick" else 300}
    for n_ in ((6, 8, 12) if tier == "quick" else (6, 7, 8, 12, 20, 35)):
        for k in range(3):
            for lat in (True, False):
                yield {"kind": "medium", "n": n_, "k": k, "lattice": lat}
    # diagrams large enough that (number of grid nodes) x (number of bars) passes 2^20 .. 2^22 (size thresholds of any blocked / memory-saving path)
    for nb, num in (((2200, 500), (1100, 1001), (4400, 257)) if tier == "quick" else ((2200, 500), (1100, 1001), (4400, 257), (8800, 500), (300, 15001), (20000, 60))):
        yield {"kind": "large", "n": nb, "num": num}
    n = 2 if tier == "quick" else 3
    for m in multisets_upto(sorted(qbars(), key=lambda p: (p[1] - p[0], p[0])), n, min_size=1):
        yield {"D": [list(b) for b in m]}


VWINDOWS = [(0.5, 2.0), (1.0, 2.5), (0.25, 4.0), (-1.0, 1.75), (0.0, 1.6), (1.3, 3.0), (-2.0, 0.5), (2.75, 5.0)]


def truth(D, grid):
    """(n_bars, n_nodes) array: row k-1 = k-th largest tent at every node (float64)."""
    D = np.asarray(D, dtype=float)
    t = np.asarray(grid, dtype=float)[None, :]
    tents = np.maximum(0.0, np.minimum(t - D[:, :1], D[:, 1:2] - t))
    return -np.sort(-tents, axis=0)


def quiet(ctx, fn, *a, **kw):
    with contextlib.redirect_stdout(io.StringIO()):
        return ctx.call(fn, *a, **kw)


def values_of(pl):
    v = np.asarray(pl.values)
    if v.dtype.kind not in "fiu":
        return None     # not an array of sampled values (the former "empty" string sentinel)
    return v.astype(float)


def check_grid(ctx, D, pl, start, stop, num, what, sig="approx"):
    grid, step = np.linspace(start, stop, num, retstep=True)
    T = truth(D, grid)
    V = values_of(pl)
    ctx.valid()
    ex = {"D": D, "start": start, "stop": stop, "num_steps": num, "variant": what}
    if V is None:
        ctx.violation(sig + "-values-not-numeric", "values is not a numeric array of sampled landscape values [%s]" % what,
                      observed=repr(pl.values), extra=ex)
        return
    if V.ndim != 2 or V.shape[1] != num:
        ctx.violation(sig + "-shape", "values must have one column per grid node [%s]" % what, observed=list(V.shape), extra=ex)
        return
    depth = max(V.shape[0], T.shape[0])
    Vp = np.zeros((depth, num))
    Vp[: V.shape[0]] = V
    Tp = np.zeros((depth, num))
    Tp[: T.shape[0]] = T
    on_grid = all(np.min(np.abs(grid - x)) <= 1e-12 * max(1.0, abs(x)) * (1.0 if step >= 1e-3 else step) for p in D for x in p)
    scale = max(1.0, abs(start), abs(stop))
    tol = 1e-12 * scale if on_grid else step / 2.0 + 1e-9 * min(scale, max(step, 1e-300) * 1e6)
    err = np.abs(Vp - Tp)
    if not np.all(err <= tol):
        k, i = np.unravel_index(np.argmax(err), err.shape)
        ctx.violation(sig + ("-exact-on-grid" if on_grid else "-half-step"),
                      "sampled value at depth %d, node %d (t=%g) is %g, the landscape is %g: more than %s off [%s]"
                      % (k + 1, i, grid[i], Vp[k, i], Tp[k, i], "1e-12 (all endpoints on the grid)" if on_grid else "half a step", what),
                      observed=float(Vp[k, i]), expected=float(Tp[k, i]), extra=ex)
    if not on_grid and T.shape[0] >= 2 and T[1].max() > 0:
        ctx.nontriv("snapped_endpoints_two_depths", key=(D, start, stop, num))
    if pl.start != start or pl.stop != stop or pl.num_steps != num:
        ctx.violation(sig + "-grid-params", "landscape does not report the grid it was asked for [%s]" % what,
                      observed=[pl.start, pl.stop, pl.num_steps], expected=[start, stop, num], extra=ex)


def run_large(case, ctx):
    """Thousands of bars (low-discrepancy births and lengths, endpoints off the grid) on one grid."""
    from persim import PersLandscapeApprox

    n, num = int(case["n"]), int(case["num"])
    i = np.arange(1, n + 1, dtype=float)
    b = np.round(((i * 0.6180339887498949) % 1.0) * 8.0, 6)
    D = np.column_stack([b, b + np.round(0.05 + ((i * 0.4142135623730951) % 1.0) * 1.9, 6)])   # every bar inside [0, 10]
    start, stop = 0.0, 10.0
    ctx.state(("large", n, num))
    pl = quiet(ctx, PersLandscapeApprox, dgms=[D.copy()], hom_deg=0, num_steps=num, start=start, stop=stop)
    check_grid(ctx, D.tolist(), pl, start, stop, num, "large diagram", sig="approx-large")
    ctx.nontriv("large_diagram_%d_bars_x_%d_nodes" % (n, num))
    ctx.outcome(("large", n, num))


def run_medium(case, ctx):
    """Diagrams of 6..35 bars (deep stacks of overlapping bars) on grids with 5..121 nodes."""
    from persim import PersLandscapeApprox, PersistenceLandscaper

    D = medium_diagram(int(case["n"]), int(case["k"]), bool(case["lattice"]))
    A = np.array(D, dtype=float)
    decoy = np.array([[0.0, 3.0]])
    lo, hi = float(A[:, 0].min()), float(A[:, 1].max())
    for (start, stop) in ((0.0, 21.0), (lo, hi), (-4.0, 24.0)):
        for num in (5, 22, 43, 85, 121):
            ctx.state(("medium", case["n"], case["k"], case["lattice"], start, stop, num))
            pl = quiet(ctx, PersLandscapeApprox, dgms=[A], hom_deg=0, num_steps=num, start=start, stop=stop)
            check_grid(ctx, D, pl, start, stop, num, "medium diagram", sig="approx-medium")
            if num == 43:
                tr = PersistenceLandscaper(hom_deg=0, num_steps=num, start=start, stop=stop)
                out = quiet(ctx, tr.fit_transform, [A, decoy])
                ctx.valid()
                if np.asarray(out).shape != np.asarray(pl.values).shape or not np.array_equal(np.asarray(out), np.asarray(pl.values)):
                    ctx.violation("transformer", "PersistenceLandscaper.fit_transform differs from PersLandscapeApprox.values (medium diagram)",
                                  extra={"n": case["n"], "k": case["k"], "lattice": case["lattice"]})
    ctx.nontriv("medium_diagram_%d_bars" % len(D))
    ctx.outcome(("medium", case["n"], case["k"], case["lattice"]))


def run_case(case, ctx):
    from persim import PersLandscapeApprox, PersLandscapeExact, PersistenceLandscaper
    from persim.landscapes import death_vector, vectorize

    if case.get("kind") == "large":
        return run_large(case, ctx)
    if case.get("kind") == "medium":
        return run_medium(case, ctx)
    if case.get("kind") == "steps-sweep":
        D = SWEEP_COVER[case["cover"]]
        A = np.array(D, dtype=float)
        for num in range(2, case["hi"] + 1):
            for (start, stop) in ((0.0, 3.0), (-0.5, 3.25)):
                ctx.state((D, start, stop, num))
                pl = quiet(ctx, PersLandscapeApprox, dgms=[A], hom_deg=0, num_steps=num, start=start, stop=stop)
                check_grid(ctx, D, pl, start, stop, num, "num_steps sweep", sig="approx-steps")
        ctx.nontriv("all_num_steps_2_to_%d" % case["hi"])
        return
    D = case["D"]
    A = np.array(D, dtype=float)
    decoy = np.array([[0.0, 3.0], [0.25, 0.5]])
    lo, hi = float(A[:, 0].min()), float(A[:, 1].max())
    ex = PersLandscapeExact(dgms=[A], hom_deg=0)
    ctx.trans()
    exact_fs = [P.make([(float(x), float(y)) for x, y in depth]) for depth in ex.critical_pairs]
    exact_ok = all(
        P.ev(exact_fs[k - 1] if k <= len(exact_fs) else [], t) == OL.kth_tent(D, t, k)
        for k in range(1, len(D) + 2) for t in OL.breakpoints(D))
    for g in GRIDS:
        gs, ge = g if g is not None else (None, None)
        start, stop = (lo if gs is None else gs), (hi if ge is None else ge)   # a missing end defaults to the diagram's extreme
        for num in STEPS[ctx.tier]:
            ctx.state((D, start, stop, num))
            kw = {}
            if gs is not None:
                kw["start"] = gs
            if ge is not None:
                kw["stop"] = ge
            pl = quiet(ctx, PersLandscapeApprox, dgms=[A], hom_deg=0, num_steps=num, **kw)
            check_grid(ctx, D, pl, start, stop, num, "hom_deg=0")
            ctx.outcome(np.round(values_of(pl), 9).tolist())
            if num in (3, 7):
                # an infinite bar (every H0 diagram of a filtration has one) is removed before anything else:
                # same grid defaults, same values as for the finite bars alone
                for pos in sorted({0, len(A) // 2, len(A)}):
                    Ainf = np.insert(A, pos, [0.5 * (lo + hi), np.inf], axis=0)
                    pli = quiet(ctx, PersLandscapeApprox, dgms=[Ainf], hom_deg=0, num_steps=num, **kw)
                    check_grid(ctx, D, pli, start, stop, num, "infinite bar inserted at row %d" % pos, sig="approx-inf-bar")
                ctx.nontriv("diagram_with_infinite_bar")
                # indexing is the first thing asked of an object built with compute=False
                # (constructed outside ctx.call: the object legitimately changes when it computes itself)
                pld = PersLandscapeApprox(dgms=[A], hom_deg=0, num_steps=num, compute=False, **kw)
                with contextlib.redirect_stdout(io.StringIO()):
                    first = pld[0]
                ctx.trans()
                ctx.valid()
                if not np.array_equal(np.asarray(first, dtype=float), values_of(pl)[0]):
                    ctx.violation("approx-deferred-getitem", "pl[0] of a grid landscape built with compute=False is not its first depth",
                                  observed=np.asarray(first).tolist() if first is not None else None, expected=values_of(pl)[0].tolist(),
                                  extra={"D": D, "start": start, "stop": stop, "num_steps": num})
                pl1 = quiet(ctx, PersLandscapeApprox, dgms=[decoy, A], hom_deg=1, num_steps=num, **kw)
                check_grid(ctx, D, pl1, start, stop, num, "hom_deg=1 of [decoy, D]")
                pl2 = quiet(ctx, PersLandscapeApprox, dgms=[np.zeros((0, 2)), decoy, A], hom_deg=2, num_steps=num, **kw)
                check_grid(ctx, D, pl2, start, stop, num, "hom_deg=2 of [empty, decoy, D]")
                # transformer == approximate landscape, bitwise (flattened on request)
                for flatten in (False, True):
                    tr = PersistenceLandscaper(hom_deg=0, num_steps=num, flatten=flatten, **kw)
                    out = quiet(ctx, tr.fit_transform, [A, decoy])
                    want = np.asarray(pl.values)
                    want = want.flatten() if flatten else want
                    ctx.valid()
                    if np.asarray(out).shape != want.shape or not np.array_equal(np.asarray(out), want):
                        ctx.violation("transformer", "PersistenceLandscaper.fit_transform differs from PersLandscapeApprox.values (flatten=%r)" % flatten,
                                      observed=np.asarray(out).tolist(), expected=want.tolist(), extra={"D": D, "start": start, "stop": stop, "num_steps": num})
            # sampling the exact landscape onto the grid reproduces its values at the nodes
            if num in (2, 5, 13, 100):
                vkw = dict(kw)
                vz = quiet(ctx, vectorize, ex, num_steps=num, **vkw)
                vstart, vstop = float(vz.start), float(vz.stop)
                ctx.valid()
                if (gs is not None and vstart != gs) or (ge is not None and vstop != ge):
                    ctx.violation("vectorize", "vectorize does not use the grid end it was given", observed=[vstart, vstop], expected=[gs, ge], extra={"D": D})
                grid = np.linspace(vstart, vstop, num)
                V = values_of(vz)
                ctx.valid()
                want = np.array([[float(P.ev(f, float(t))) for t in grid] for f in exact_fs])
                if V.shape != want.shape or not np.all(np.abs(V - want) <= 1e-12):
                    ctx.violation("vectorize", "vectorize(exact) differs from the exact landscape's own function at the grid nodes",
                                  observed=V.tolist(), expected=want.tolist(), extra={"D": D, "start": vstart, "stop": vstop, "num_steps": num})
                # the same sampling asked of a landscape built with compute=False (vectorize is the first thing
                # that needs the critical points) and of the negated landscape (all values <= 0: the default grid
                # is still the support, the values are the negated ones)
                if num in (5, 13):
                    exd = PersLandscapeExact(dgms=[A], hom_deg=0, compute=False)
                    for what, obj, sign in (("deferred landscape", exd, 1.0), ("negated landscape", ctx.call(lambda: -ex), -1.0)):
                        vo = quiet(ctx, vectorize, obj, num_steps=num, **vkw)
                        Vo = values_of(vo)
                        ctx.valid()
                        if Vo is None or Vo.shape != V.shape or not np.array_equal(Vo, sign * V + 0.0) or float(vo.start) != vstart or float(vo.stop) != vstop:
                            ctx.violation("vectorize-variant", "vectorize of the %s differs from (the negation of) vectorize of the landscape itself" % what,
                                          observed=[float(vo.start), float(vo.stop), None if Vo is None else Vo.tolist()], expected=[vstart, vstop, (sign * V + 0.0).tolist()],
                                          extra={"D": D, "num_steps": num, "grid": [gs, ge]})
                if V.shape != want.shape or not np.all(np.abs(V - want) <= 1e-12):
                    pass
                elif exact_ok:
                    T = truth(D, grid)[: V.shape[0]]
                    if (gs is None and vstart != lo) or (ge is None and vstop != hi):
                        ctx.violation("vectorize", "default grid of vectorize is not [min birth, max death]", observed=[vstart, vstop], expected=[lo, hi], extra={"D": D})
                    elif not np.all(np.abs(V - T) <= 1e-12):
                        ctx.violation("vectorize", "vectorize(exact) differs from the true landscape at the grid nodes",
                                      observed=V.tolist(), expected=T.tolist(), extra={"D": D, "start": vstart, "stop": vstop, "num_steps": num})
    # vectorize on windows that do NOT cover the support (start and/or stop strictly inside it, windows
    # beside it): the values at the nodes are still the landscape's values there
    for (ws, we) in VWINDOWS:
        for num in (2, 4, 5, 9):
            ctx.state(("vwin", D, ws, we, num))
            vz = quiet(ctx, vectorize, ex, start=ws, stop=we, num_steps=num)
            grid = np.linspace(ws, we, num)
            V = values_of(vz)
            ctx.valid()
            want = np.array([[float(P.ev(f, float(t))) for t in grid] for f in exact_fs])
            if V is None or V.shape != want.shape or not np.all(np.abs(V - want) <= 1e-12) or float(vz.start) != ws or float(vz.stop) != we:
                ctx.violation("vectorize-window", "vectorize(exact, start=%r, stop=%r) differs from the exact landscape's own function at the grid nodes" % (ws, we),
                              observed=None if V is None else V.tolist(), expected=want.tolist(), extra={"D": D, "start": ws, "stop": we, "num_steps": num})
            elif exact_ok and not np.all(np.abs(V - truth(D, grid)[: V.shape[0]]) <= 1e-12):
                ctx.violation("vectorize-window", "vectorize(exact, start=%r, stop=%r) differs from the true landscape at the grid nodes" % (ws, we),
                              observed=V.tolist(), expected=truth(D, grid)[: V.shape[0]].tolist(), extra={"D": D, "start": ws, "stop": we, "num_steps": num})
    # vectorize far from the origin and with nearly meeting kinks: critical points closer than 1e-5 relative to
    # their abscissa are still different points (exact translations by 2^20 keep every coordinate exact)
    for c_ in (1048576.0, -4194304.0):
        D3 = [[b + c_, d + c_] for b, d in D]
        ex3 = PersLandscapeExact(dgms=[np.array(D3, dtype=float)], hom_deg=0)
        ctx.trans()
        for (ws, we, num) in ((c_, c_ + 3.0, 13), (c_ + 0.25, c_ + 2.75, 11)):
            ctx.state(("vfar", D, c_, ws, we, num))
            vz = quiet(ctx, vectorize, ex3, start=ws, stop=we, num_steps=num)
            grid = np.linspace(ws, we, num)
            V = values_of(vz)
            want = np.array([[float(P.ev(f, float(t - c_))) for t in grid] for f in exact_fs])
            ctx.valid()
            if V is None or V.shape != want.shape or not np.all(np.abs(V - want) <= 1e-9):
                ctx.violation("vectorize-far", "vectorize(exact) of the diagram translated by %r differs from the translated landscape at the grid nodes" % c_,
                              observed=None if V is None else V.tolist(), expected=want.tolist(), extra={"D": D3, "start": ws, "stop": we, "num_steps": num})
    Dn = [[0.0, 1.0], [1.0 + 1e-6, 2.0], [0.5, 0.5 + 2e-6 + 1.0]]
    exn = PersLandscapeExact(dgms=[np.array(Dn)], hom_deg=0)
    fn = [P.make([(float(x), float(y)) for x, y in depth]) for depth in exn.critical_pairs]
    gridn = np.linspace(0.0, 2.0, 2000001)[[0, 250000, 500000, 999999, 1000000, 1000001, 1000002, 1500001, 2000000]]
    for (ws, we, num) in ((0.0, 2.0, 2000001),):
        if case.get("D") == [[0.0, 0.25]]:      # once per check run (the landscape does not depend on the case)
            vz = quiet(ctx, vectorize, exn, start=ws, stop=we, num_steps=num)
            V = values_of(vz)
            full = np.linspace(ws, we, num)
            idx = [0, 250000, 500000, 999999, 1000000, 1000001, 1000002, 1500001, 2000000]
            want = np.array([[float(P.ev(f, float(full[i]))) for i in idx] for f in fn])
            ctx.valid()
            if V is None or V.shape[1] != num or not np.all(np.abs(V[:, idx] - want) <= 1e-12):
                ctx.violation("vectorize-near-kinks", "vectorize(exact) merges kinks that are 1e-6 apart", observed=None if V is None else V[:, idx].tolist(), expected=want.tolist(), extra={"D": Dn})
    # translated (negative coordinates, a birth at exactly 0 after negative ones) and rescaled copies of
    # the whole configuration: the same oracle must hold
    for c_, a_ in ((-2.0, 1.0), (-0.75, 1.0), (0.0, 0.1), (1024.0, 1.0), (0.0, 1e-6)):
        D2 = [[a_ * b + c_, a_ * d + c_] for b, d in D]
        A2 = np.array(D2, dtype=float)
        for g in (GRIDS[0], GRIDS[2]):
            start, stop = a_ * g[0] + c_, a_ * g[1] + c_
            for num in (4, 7, 13):
                ctx.state((D2, start, stop, num))
                pl = quiet(ctx, PersLandscapeApprox, dgms=[A2], hom_deg=0, num_steps=num, start=start, stop=stop)
                check_grid(ctx, D2, pl, start, stop, num, "translated by %r, scaled by %r" % (c_, a_), sig="approx-affine")
    # single-precision input with values that float32 cannot hold exactly: the transformer (which learns its
    # grid from the data) still returns exactly the sampled values of the approximate landscape
    A32 = (0.1 * A + 0.05).astype(np.float32)
    for num in (4, 7):
        for kw32 in ({}, {"start": 0.0}, {"stop": 0.5}):
            ctx.state(("f32", D, num, sorted(kw32)))
            tr = PersistenceLandscaper(hom_deg=0, num_steps=num, **kw32)
            out = quiet(ctx, tr.fit_transform, [A32, decoy.astype(np.float32)])
            pl32 = quiet(ctx, PersLandscapeApprox, dgms=[A32], hom_deg=0, num_steps=num, **kw32)
            ctx.valid()
            if np.asarray(out).shape != np.asarray(pl32.values).shape or not np.array_equal(np.asarray(out), np.asarray(pl32.values)):
                ctx.violation("transformer", "PersistenceLandscaper.fit_transform differs from PersLandscapeApprox.values on a float32 diagram",
                              observed=np.asarray(out).tolist(), expected=np.asarray(pl32.values).tolist(), extra={"D": A32.tolist(), "num_steps": num, "kw": kw32})
    # death vector
    for arr in ([A, decoy], [A[::-1].copy()]):
        dv = quiet(ctx, death_vector, arr)
        ctx.valid()
        want = sorted(arr[0][:, 1].tolist(), reverse=True)
        if [float(x) for x in dv] != want:
            ctx.violation("death-vector", "death_vector is not the deaths in non-increasing order", observed=[float(x) for x in dv], expected=want, extra={"D": arr[0].tolist()})
