"""C19 — public API is pure, repeatable and representation-independent (explorers A + B)."""
import contextlib
import inspect
import io
import itertools
import sys
import warnings

import numpy as np

PROPERTY = "C19"
INF = float("inf")
RULE = (
    "alphabet: ~50 call thunks over every public entry point (distances with/without matching, heat, "
    "sliced Wasserstein, entropy flag variants, mGH pair/collection under a fixed NumPy seed, both imagers "
    "(fit/transform/fit_transform/plots), exact/grid landscapes (construction, arithmetic, norms, "
    "indexing, vectorize, snap_pl, lc/average, death_vector), the landscape transformer, diagram / "
    "matching / landscape plots). A: every thunk x every accepted argument form (nested lists, int, "
    "float64, float32 arrays; with/without infinite deaths): arguments byte-identical afterwards, repeated "
    "call gives the same canonical result, all forms give equal results. B: ALL sequences f;g;f of two "
    "thunks on SHARED argument arrays (quick) and f;g;h;f over the non-plot thunks (thorough): second "
    "result of f == first, shared arguments and every function default / module constant unchanged. "
    "state = (thunk, form) or a call sequence; transition = one public call; non-trivial = sequence of "
    "two different thunks sharing at least one argument array. Order differential: all thunks once each in fresh processes in forward / reverse / interleaved order, results compared thunk by thunk."
    " Sparse mGH inputs (CSR with explicitly stored zeros, CSC, LIL) snapshotted entry by entry."
)
ASSUMPTIONS = [
    "which argument forms an entry point accepts is pinned from the unchanged tree (table FORMS_ACCEPTED); an accepted form that starts raising is a violation",
    "results are canonicalised to 10 significant digits; plots are compared through their artists",
]

D1 = [[0, 2], [1, 4], [2, 3]]
D2 = [[0, 3], [1, 2]]
D3 = [[1, 5], [2, 6], [3, 4]]
DI = [[0.0, 2.0], [1.0, INF], [1.0, 3.0]]
D8A = [[0, 3], [1, 4], [2, 3], [0, 7], [4, 6], [5, 9], [6, 7], [3, 8]]
D8B = [[1, 2], [0, 5], [2, 6], [3, 4], [4, 9], [7, 8], [5, 6], [1, 7], [8, 10]]
DIL_ = [[0.5, 2.0], [1.0, 3.0], [0.0, INF]]          # infinite bar LAST (ripser's H0 layout)
_BASE = [D1, D2, D3, DI, D8A, D8B, DIL_]
G1 = [[0, 1, 1, 0], [0, 0, 1, 0], [0, 0, 0, 1], [0, 0, 0, 0]]
G2 = [[0, 1, 0], [0, 0, 1], [0, 0, 0]]
G3 = [[0, 1], [0, 0]]


def cycle(n):
    A = [[0] * n for _ in range(n)]
    for i in range(n):
        a, b = sorted((i, (i + 1) % n))
        A[a][b] = 1
    return A


def grid_graph(r, c):
    n = r * c
    A = [[0] * n for _ in range(n)]
    for i in range(r):
        for j in range(c):
            v = i * c + j
            if j + 1 < c:
                A[v][v + 1] = 1
            if i + 1 < r:
                A[v][v + c] = 1
    return A


def binary_tree(n):
    A = [[0] * n for _ in range(n)]
    for v in range(1, n):
        A[(v - 1) // 2][v] = 1
    return A


def star(n):
    A = [[0] * n for _ in range(n)]
    for i in range(1, n):
        A[0][i] = 1
    return A


def form(D, f):
    if f == "list":
        return [list(p) for p in D]
    if f == "int":
        return np.array(D, dtype=int)
    if f == "f64":
        return np.array(D, dtype=float)
    if f == "f32":
        return np.array(D, dtype=np.float32)
    if f == "f64F":
        # column-major float64 of the same values, the way np.array([births, deaths]).T arrives: a transposed view that owns no data
        return np.array(D, dtype=float).T.copy().T
    raise ValueError(f)


def snapshot(x):
    if isinstance(x, np.ndarray):
        return ("nd", x.dtype.str, x.shape, x.tobytes())
    if isinstance(x, (list, tuple)):
        return (type(x).__name__, tuple(snapshot(v) for v in x))
    if isinstance(x, dict):
        return ("dict", tuple((k, snapshot(v)) for k, v in sorted(x.items(), key=lambda kv: str(kv[0]))))
    if isinstance(x, float):
        return ("f", repr(x))
    if hasattr(x, "tocoo") and hasattr(x, "nnz"):
        # sparse matrix: format and every stored entry (explicitly stored zeros included)
        if x.format in ("csr", "csc"):
            return ("sp", x.format, x.shape, x.data.tobytes(), x.indices.tobytes(), x.indptr.tobytes())
        c = x.tocoo()
        return ("sp", x.format, x.shape, c.data.tobytes(), c.row.tobytes(), c.col.tobytes())
    return ("o", repr(x))


def canon(r, depth=0):
    """Canonical, comparable form of any result."""
    import matplotlib.axes

    if r is None or isinstance(r, (str, bool)):
        return r
    if isinstance(r, (int, np.integer)):
        return int(r)
    if isinstance(r, (float, np.floating)):
        return float("%.10g" % float(r)) if np.isfinite(r) else repr(float(r))
    if isinstance(r, np.ndarray):
        if r.dtype.kind in "fiu":
            return ["nd", list(r.shape), [canon(v) for v in r.ravel().tolist()]]
        return ["nd", list(r.shape), r.ravel().tolist()]
    if isinstance(r, (list, tuple)):
        return [canon(v, depth + 1) for v in r]
    if isinstance(r, dict):
        return {str(k): canon(v, depth + 1) for k, v in r.items()}
    if isinstance(r, matplotlib.axes.Axes):
        return axes_summary(r)
    if hasattr(r, "critical_pairs"):
        return ["exact", r.hom_deg, canon([[list(map(float, p)) for p in d] for d in r.critical_pairs])]
    if hasattr(r, "values") and hasattr(r, "num_steps"):
        return ["grid", r.hom_deg, canon(r.start), canon(r.stop), r.num_steps, canon(np.asarray(r.values))]
    if hasattr(r, "get_params"):
        return ["estimator", canon({k: v for k, v in vars(r).items() if not callable(v) and not k.startswith("_")})]
    if hasattr(r, "resolution") and hasattr(r, "birth_range"):
        return ["imager", canon(list(r.birth_range)), canon(list(r.pers_range)), canon(r.pixel_size), list(r.resolution)]
    return repr(type(r))


def axes_summary(ax):
    cols = []
    for c in ax.collections:
        try:
            cols.append(canon(np.asarray(c.get_offsets(), dtype=float)))
        except Exception:  # noqa: BLE001
            cols.append("collection")
    lines = [canon(np.asarray(l.get_xydata(), dtype=float)) for l in ax.lines]
    leg = ax.get_legend()
    return ["axes", cols, lines, canon(list(ax.get_xlim())), canon(list(ax.get_ylim())), ax.get_title(), ax.get_xlabel(), ax.get_ylabel(),
            [t.get_text() for t in leg.get_texts()] if leg is not None else None, len(ax.images)]


# ---------------------------------------------------------------------------------------------
# thunks: name -> (function(pool) -> result, names of pool entries it uses, is_plot)
# the pool maps names to argument objects (arrays / lists); thunks never create their own data
# ---------------------------------------------------------------------------------------------
def _fresh_ax():
    import matplotlib.pyplot as plt

    plt.close("all")
    fig, ax = plt.subplots()
    return ax


def thunks():
    import persim
    from persim import (PersistenceImager, PersImage, PersistenceLandscaper, PersLandscapeApprox, PersLandscapeExact)
    from persim.landscapes import average_approx, death_vector, lc_approx, plot_landscape_simple, snap_pl, vectorize
    from persim.persistent_entropy import persistent_entropy

    T = {}

    def reg(name, fn, uses, plot=False, forms=("list", "int", "f64", "f32")):
        T[name] = {"fn": fn, "uses": uses, "plot": plot, "forms": forms}

    arr = lambda x: x  # noqa: E731
    reg("bottleneck", lambda P: persim.bottleneck(P["A"], P["B"]), ["A", "B"])
    reg("bottleneck_matching=True", lambda P: persim.bottleneck(P["A"], P["B"], matching=True), ["A", "B"])
    reg("wasserstein", lambda P: persim.wasserstein(P["A"], P["B"]), ["A", "B"])
    reg("wasserstein_matching=True", lambda P: persim.wasserstein(P["A"], P["B"], matching=True), ["A", "B"])
    reg("bottleneck_inf", lambda P: persim.bottleneck(P["I"], P["B"], matching=True), ["I", "B"], forms=("list", "f64", "f32"))
    reg("wasserstein_inf", lambda P: persim.wasserstein(P["A"], P["I"], matching=True), ["A", "I"], forms=("list", "f64", "f32"))
    reg("heat", lambda P: persim.heat(P["A"], P["B"]), ["A", "B"])
    reg("heat_sigma", lambda P: persim.heat(P["B"], P["C"], sigma=1.5), ["B", "C"])
    reg("sliced_wasserstein", lambda P: persim.sliced_wasserstein(P["A"], P["B"], M=7), ["A", "B"], forms=("int", "f64", "f32"))
    reg("entropy", lambda P: persistent_entropy(P["A"]), ["A"], forms=("int", "f64", "f32"))
    reg("entropy_list_normalized", lambda P: persistent_entropy([P["A"], P["B"]], normalize=True), ["A", "B"], forms=("int", "f64", "f32"))
    reg("entropy_keep_inf", lambda P: persistent_entropy(P["I"], keep_inf=True, val_inf=9.0), ["I"], forms=("f64", "f32"))
    reg("entropy_drop_inf", lambda P: persistent_entropy([P["I"], P["A"]]), ["I", "A"], forms=("f64", "f32"))

    def mgh_pair(P):
        np.random.seed(7)
        return persim.gromov_hausdorff(P["G1"], P["G2"])

    def mgh_coll(P):
        np.random.seed(11)
        return persim.gromov_hausdorff([P["G1"], P["G2"], P["G3"]])

    def mgh_order(P):
        np.random.seed(3)
        return persim.gromov_hausdorff(P["G2"], P["G1"], mapping_sample_size_order=P["order"])

    def mgh_sensitive(P):
        out = []
        for sd in (0, 1, 2):
            np.random.seed(sd)
            out.append(persim.gromov_hausdorff(P["CY6"], P["ST5"]))
            np.random.seed(sd)
            out.append(persim.gromov_hausdorff(P["CY6"], P["CY8"]))
        return out

    def mgh_larger(P):
        out = []
        for sd in (0, 1, 2):
            for a, b in (("GR34", "TR15"), ("CY14", "GR35")):
                np.random.seed(sd)
                out.append(persim.gromov_hausdorff(P[a], P[b]))
        return out

    reg("gromov_hausdorff_draw_sensitive", mgh_sensitive, ["CY6", "ST5", "CY8"], forms=("list", "int"))
    reg("gromov_hausdorff_larger_graphs", mgh_larger, ["GR34", "TR15", "CY14", "GR35"], forms=("list", "int"))
    def mgh_sparse(P):
        np.random.seed(11)
        return [persim.gromov_hausdorff(P["SP_CSR0"], P["SP_CSC"]), persim.gromov_hausdorff(P["SP_LIL"], P["SP_CSR0"]),
                persim.gromov_hausdorff([P["SP_CSR0"], P["SP_CSC"], P["SP_LIL"]])]

    # sparse inputs, one of them a CSR matrix with explicitly stored zeros (they are not edges, and they are the
    # caller's: they must still be stored after the call)
    reg("gromov_hausdorff_sparse", mgh_sparse, ["SP_CSR0", "SP_CSC", "SP_LIL"], forms=("list", "int"))
    reg("gromov_hausdorff_pair", mgh_pair, ["G1", "G2"], forms=("list", "int"))
    reg("gromov_hausdorff_collection", mgh_coll, ["G1", "G2", "G3"], forms=("list", "int"))
    reg("gromov_hausdorff_order", mgh_order, ["G1", "G2", "order"], forms=("list", "int"))

    def imager(**kw):
        return PersistenceImager(pixel_size=0.5, **kw)

    def im_fit(P):
        im = imager()
        im.fit(P["A"])
        return im

    def im_fit_coll(P):
        im = imager()
        im.fit([P["A"], P["B"]], skew=False)
        return im

    reg("imager_fit", im_fit, ["A"], forms=("int", "f64", "f32"))
    reg("imager_fit_collection", im_fit_coll, ["A", "B"], forms=("int", "f64", "f32"))
    reg("imager_transform", lambda P: imager(birth_range=(0.0, 3.0), pers_range=(0.0, 3.0)).transform(P["A"]), ["A"], forms=("int", "f64", "f32"))
    reg("imager_transform_collection_noskew",
        lambda P: imager(birth_range=(0.0, 3.0), pers_range=(0.0, 3.0), kernel_params={"sigma": np.array([[0.5, 0.2], [0.2, 0.4]])}).transform([P["A"], P["B"]], skew=False),
        ["A", "B"], forms=("int", "f64", "f32"))
    reg("imager_fit_transform", lambda P: imager().fit_transform([P["A"], P["B"]]), ["A", "B"], forms=("int", "f64", "f32"))
    reg("imager_fit_transform_single", lambda P: imager(weight="linear_ramp", weight_params={"low": 0.0, "high": 1.0, "start": 0.0, "end": 2.0}).fit_transform(P["C"]), ["C"], forms=("int", "f64", "f32"))

    def persimage(P):
        with contextlib.redirect_stdout(io.StringIO()), warnings.catch_warnings():
            warnings.simplefilter("ignore")
            return PersImage(pixels=(4, 4), spread=0.5, verbose=False).transform(P["A"])

    def persimage_list(P):
        with contextlib.redirect_stdout(io.StringIO()), warnings.catch_warnings():
            warnings.simplefilter("ignore")
            return PersImage(pixels=(3, 3), verbose=False).transform([P["A"], P["B"]])

    reg("PersImage_to_landscape", lambda P: PersImage.to_landscape(P["A"]), ["A"], forms=("int", "f64", "f32"))
    reg("PersImage_transform", persimage, ["A"], forms=("int", "f64", "f32"))
    reg("PersImage_transform_list", persimage_list, ["A", "B"], forms=("int", "f64", "f32"))

    def ple(P, k="A"):
        return PersLandscapeExact(dgms=[P[k], P["B"]], hom_deg=0)

    def pla(P, k="A", **kw):
        return PersLandscapeApprox(dgms=[P[k], P["B"]], hom_deg=0, num_steps=9, **kw)

    lf = ("int", "f64", "f32")
    reg("exact_construct", lambda P: ple(P), ["A", "B"], forms=lf)
    reg("exact_hom_deg1", lambda P: PersLandscapeExact(dgms=[P["A"], P["B"]], hom_deg=1), ["A", "B"], forms=lf)
    reg("exact_arithmetic", lambda P: (ple(P) + ple(P, "C") - 2 * ple(P, "C") / 4.0), ["A", "B", "C"], forms=lf)
    reg("exact_norms", lambda P: [(ple(P) - ple(P, "C")).p_norm(2), ple(P).p_norm(3), ple(P).sup_norm()], ["A", "B", "C"], forms=lf)
    reg("exact_getitem", lambda P: [ple(P)[0], ple(P)[1:]], ["A", "B"], forms=lf)
    reg("approx_construct", lambda P: pla(P), ["A", "B"], forms=lf)
    reg("approx_grid", lambda P: pla(P, start=0.0, stop=6.0), ["A", "B"], forms=lf)
    reg("approx_arithmetic", lambda P: (pla(P, start=0.0, stop=6.0) + pla(P, "C", start=0.0, stop=6.0) * 0.5 - pla(P, "C", start=0.0, stop=6.0) / 3), ["A", "B", "C"], forms=lf)
    reg("approx_norms", lambda P: [pla(P).p_norm(2), pla(P).sup_norm(), pla(P)[0], pla(P).values_to_pairs()], ["A", "B"], forms=lf)
    reg("vectorize", lambda P: vectorize(ple(P), num_steps=7), ["A", "B"], forms=lf)
    reg("vectorize_grid", lambda P: vectorize(ple(P, "C"), start=0.0, stop=7.0, num_steps=8), ["C", "B"], forms=lf)
    reg("snap_pl", lambda P: snap_pl([pla(P), pla(P, "C", start=0.0, stop=7.0)]), ["A", "B", "C"], forms=lf)
    reg("lc_approx", lambda P: lc_approx([pla(P), pla(P, "C")], P["coeffs"]), ["A", "B", "C", "coeffs"], forms=lf)
    reg("average_approx", lambda P: average_approx([pla(P), pla(P, "C"), pla(P, "B")]), ["A", "B", "C"], forms=lf)
    reg("death_vector", lambda P: death_vector([P["A"], P["B"]]), ["A", "B"], forms=lf)

    def landscaper(P):
        t = PersistenceLandscaper(hom_deg=0, num_steps=6)
        t.fit([P["A"], P["B"]])
        return [t.transform([P["A"], P["B"]]), t.transform([P["C"], P["B"]]), t]

    reg("landscaper_fit_transform", landscaper, ["A", "B", "C"], forms=lf)
    reg("landscaper_flatten", lambda P: PersistenceLandscaper(hom_deg=1, num_steps=5, flatten=True).fit_transform([P["A"], P["C"]]), ["A", "C"], forms=lf)

    # ---- the same entry points with OTHER parameters / shapes / argument order: a cache or scratch
    # buffer keyed on too little (total size, first M seen, ...) shows up as f;g;f giving another f
    reg("bottleneck_swapped", lambda P: persim.bottleneck(P["B"], P["A"], matching=True), ["A", "B"])
    reg("bottleneck_other_shape", lambda P: persim.bottleneck(P["C"], P["B"]), ["B", "C"])
    reg("wasserstein_swapped", lambda P: persim.wasserstein(P["B"], P["A"], matching=True), ["A", "B"])
    reg("wasserstein_other_shape", lambda P: persim.wasserstein(P["C"], P["B"]), ["B", "C"])
    reg("heat_swapped", lambda P: persim.heat(P["B"], P["A"]), ["A", "B"])
    reg("sliced_wasserstein_default_M", lambda P: persim.sliced_wasserstein(P["A"], P["B"]), ["A", "B"], forms=("int", "f64", "f32"))
    reg("sliced_wasserstein_M3_swapped", lambda P: persim.sliced_wasserstein(P["C"], P["A"], M=3), ["A", "C"], forms=("int", "f64", "f32"))
    reg("entropy_other", lambda P: persistent_entropy([P["C"]], normalize=True), ["C"], forms=("int", "f64", "f32"))
    reg("imager_transform_other_grid", lambda P: PersistenceImager(pixel_size=0.25, birth_range=(0.0, 2.0), pers_range=(0.0, 4.0),
                                                                   kernel_params={"sigma": 0.3}).transform(P["C"]), ["C"], forms=("int", "f64", "f32"))
    reg("imager_transform_uniform", lambda P: PersistenceImager(pixel_size=0.5, birth_range=(0.0, 3.0), pers_range=(0.0, 3.0), kernel="uniform",
                                                                kernel_params={"width": 1.0, "height": 0.5}, weight="linear_ramp",
                                                                weight_params={"low": 0.0, "high": 1.0, "start": 0.0, "end": 3.0}).transform([P["B"], P["A"]]),
        ["A", "B"], forms=("int", "f64", "f32"))
    reg("approx_other_steps", lambda P: PersLandscapeApprox(dgms=[P["C"], P["B"]], hom_deg=0, num_steps=5), ["B", "C"], forms=("int", "f64", "f32"))
    reg("approx_add_mixed_depth", lambda P: (PersLandscapeApprox(dgms=[P["A"]], hom_deg=0, start=0.0, stop=6.0, num_steps=7)
                                             + PersLandscapeApprox(dgms=[P["B"]], hom_deg=0, start=0.0, stop=6.0, num_steps=7)), ["A", "B"], forms=("int", "f64", "f32"))
    reg("approx_add_mixed_depth_other", lambda P: (PersLandscapeApprox(dgms=[P["B"]], hom_deg=0, start=0.0, stop=6.0, num_steps=7)
                                                   - PersLandscapeApprox(dgms=[P["C"]], hom_deg=0, start=0.0, stop=6.0, num_steps=7)), ["B", "C"], forms=("int", "f64", "f32"))
    reg("exact_other", lambda P: PersLandscapeExact(dgms=[P["C"]], hom_deg=0), ["C"], forms=("int", "f64", "f32"))

    def mgh_swapped(P):
        np.random.seed(7)
        return persim.gromov_hausdorff(P["G2"], P["G3"])

    reg("gromov_hausdorff_other_pair", mgh_swapped, ["G2", "G3"], forms=("list", "int"))

    # ---- larger diagrams (8-9 points): size-dependent fast paths and caches keyed on the data
    bf = ("int", "f64", "f32")
    reg("big_heat_sigma_default", lambda P: persim.heat(P["A8"], P["B8"]), ["A8", "B8"], forms=bf)
    reg("big_heat_sigma_1", lambda P: persim.heat(P["A8"], P["B8"], sigma=1.0), ["A8", "B8"], forms=bf)
    reg("big_heat_swapped_sigma_3", lambda P: persim.heat(P["B8"], P["A8"], sigma=3.0), ["A8", "B8"], forms=bf)
    reg("big_bottleneck", lambda P: persim.bottleneck(P["A8"], P["B8"], matching=True), ["A8", "B8"], forms=bf)
    reg("big_wasserstein", lambda P: persim.wasserstein(P["B8"], P["A8"], matching=True), ["A8", "B8"], forms=bf)
    reg("big_sliced_wasserstein_M5", lambda P: persim.sliced_wasserstein(P["A8"], P["B8"], M=5), ["A8", "B8"], forms=bf)
    reg("big_sliced_wasserstein_M20", lambda P: persim.sliced_wasserstein(P["A8"], P["B8"], M=20), ["A8", "B8"], forms=bf)
    reg("big_entropy", lambda P: persistent_entropy([P["A8"], P["B8"]], normalize=True), ["A8", "B8"], forms=bf)
    reg("big_exact", lambda P: [PersLandscapeExact(dgms=[P["A8"]], hom_deg=0), (PersLandscapeExact(dgms=[P["A8"]], hom_deg=0) - PersLandscapeExact(dgms=[P["B8"]], hom_deg=0)).p_norm(3)], ["A8", "B8"], forms=bf)
    reg("big_approx", lambda P: PersLandscapeApprox(dgms=[P["B8"]], hom_deg=0, num_steps=40), ["B8"], forms=bf)
    reg("big_approx_other_steps", lambda P: PersLandscapeApprox(dgms=[P["B8"]], hom_deg=0, num_steps=17, start=-1.0, stop=12.0), ["B8"], forms=bf)
    reg("big_imager", lambda P: PersistenceImager(pixel_size=0.5, birth_range=(0.0, 8.0), pers_range=(0.0, 6.0)).transform([P["A8"], P["B8"]]), ["A8", "B8"], forms=bf)
    reg("big_imager_other_sigma", lambda P: PersistenceImager(pixel_size=0.5, birth_range=(0.0, 8.0), pers_range=(0.0, 6.0), kernel_params={"sigma": 0.25}).transform(P["A8"]), ["A8"], forms=bf)
    reg("big_landscaper", lambda P: PersistenceLandscaper(hom_deg=0, num_steps=30).fit_transform([P["A8"], P["B8"]]), ["A8", "B8"], forms=bf)

    # ---- non-default parameters, deferred computation, less common call styles -------------------
    af = ("list", "int", "f64", "f32")
    xf = ("list", "f64", "f32")

    def exact_deferred(P, k):
        L = PersLandscapeExact(dgms=[P[k], P["B"]], hom_deg=0, compute=False)
        return [L.p_norm(2), L[0], L.sup_norm(), L]

    def exact_verbose(P, k):
        L = PersLandscapeExact(dgms=[P[k]], hom_deg=0, compute=False)
        L.compute_landscape(verbose=True)
        return [L, L.compute_landscape_by_depth(0)]

    def approx_deferred(P, k):
        L = PersLandscapeApprox(dgms=[P[k], P["B"]], hom_deg=0, num_steps=11, compute=False)
        L.compute_landscape(verbose=True)
        return [L, L.p_norm(3), (L - 2 * L).sup_norm()]

    reg("exact_inf_last", lambda P: PersLandscapeExact(dgms=[P["IL"]], hom_deg=0), ["IL"], forms=xf)
    reg("exact_inf_last_deferred", lambda P: exact_deferred(P, "IL"), ["IL", "B"], forms=xf)
    reg("exact_deferred", lambda P: exact_deferred(P, "C"), ["C", "B"], forms=af)
    reg("exact_verbose", lambda P: exact_verbose(P, "A8"), ["A8"], forms=af)
    reg("exact_verbose_inf_last", lambda P: exact_verbose(P, "IL"), ["IL"], forms=xf)
    reg("approx_inf_last", lambda P: PersLandscapeApprox(dgms=[P["IL"]], hom_deg=0, num_steps=8), ["IL"], forms=xf)
    reg("approx_inf_mid_grid", lambda P: PersLandscapeApprox(dgms=[P["I"]], hom_deg=0, num_steps=6, start=-5.0, stop=8.0), ["I"], forms=xf)
    reg("approx_deferred", lambda P: approx_deferred(P, "A8"), ["A8", "B"], forms=af)

    def approx_from_values(P):
        L = PersLandscapeApprox(start=0.0, stop=4.0, num_steps=5, values=P["VALS"])
        M_ = PersLandscapeApprox(start=0.0, stop=4.0, num_steps=5, values=P["VALS"][:1] * 2)
        return [L, L + M_, L - M_, 3 * L, L / 2.0, L.p_norm(1), L.p_norm(7), L.sup_norm(), (L - M_).p_norm(3), L[1], L.values_to_pairs()]

    reg("approx_from_values", approx_from_values, ["VALS"], forms=("int", "f64", "f32"))

    def exact_from_pairs(P):
        L = PersLandscapeExact(critical_pairs=P["CP"], hom_deg=1)
        M_ = PersLandscapeExact(critical_pairs=P["CP"][:1], hom_deg=1)
        return [L + M_, L - M_, -L, L * 2.5, L / 4, L.p_norm(1), L.p_norm(2.5), L.sup_norm(), L[0], vectorize(L, num_steps=5)]

    reg("exact_from_pairs", exact_from_pairs, ["CP"], forms=("list",))
    reg("bottleneck_inf_last", lambda P: persim.bottleneck(P["IL"], P["I"], matching=True), ["IL", "I"], forms=xf)
    reg("wasserstein_inf_last", lambda P: persim.wasserstein(P["IL"], P["A"], matching=True), ["IL", "A"], forms=xf)
    reg("entropy_keep_inf_low", lambda P: persistent_entropy([P["IL"], P["I"]], keep_inf=True, val_inf=P["val_inf_low"], normalize=True), ["IL", "I", "val_inf_low"], forms=("f64", "f32"))
    reg("snap_pl_explicit", lambda P: snap_pl([pla(P), pla(P, "C", start=0.0, stop=7.0)], start=-1.0, stop=9.0, num_steps=6), ["A", "B", "C"], forms=af)
    reg("snap_pl_downsample", lambda P: snap_pl([pla(P, start=0.0, stop=8.0), pla(P, "C", start=0.0, stop=8.0)], num_steps=3), ["A", "B", "C"], forms=af)
    reg("lc_approx_explicit", lambda P: lc_approx([pla(P), pla(P, "C")], P["coeffs"], start=0.0, stop=6.0, num_steps=4), ["A", "B", "C", "coeffs"], forms=af)
    reg("average_approx_explicit", lambda P: average_approx([pla(P), pla(P, "C")], start=1.0, stop=5.0, num_steps=9), ["A", "B", "C"], forms=af)
    reg("vectorize_window", lambda P: vectorize(ple(P, "A8"), start=P["win"][0], stop=P["win"][1], num_steps=6), ["A8", "B", "win"], forms=af)
    reg("landscaper_bounds", lambda P: (lambda t: [t.fit_transform([P["A8"], P["B"]]), t.transform([P["B8"], P["A"]]), t])(PersistenceLandscaper(hom_deg=1, start=0.0, stop=P["stop"], num_steps=7, flatten=True)), ["A8", "B8", "A", "B", "stop"], forms=af)
    reg("imager_n_jobs1", lambda P: imager(birth_range=(0.0, 3.0), pers_range=(0.0, 3.0)).transform([P["A"], P["C"]], n_jobs=1), ["A", "C"], forms=af)
    reg("imager_n_jobs1_noskew", lambda P: imager(birth_range=(0.0, 3.0), pers_range=(0.0, 3.0), kernel_params={"sigma": P["sigma"]}).transform(P["A"], skew=False, n_jobs=1), ["A", "sigma"], forms=af)
    reg("imager_sigma_array_persistence_weight", lambda P: imager(birth_range=(0.0, 3.0), pers_range=(0.0, 3.0), kernel_params={"sigma": P["sigma"]}, weight="persistence", weight_params={"n": 2.0}).transform([P["A"], P["B"]]), ["A", "B", "sigma"], forms=af)
    reg("imager_narrow_high_correlation", lambda P: imager(birth_range=(0.0, 3.0), pers_range=(0.0, 3.0), kernel_params={"sigma": P["sigma_hc"]}).transform([P["A"], P["B"]]), ["A", "B", "sigma_hc"], forms=af)
    reg("imager_fit_transform_noskew", lambda P: imager().fit_transform([P["A"], P["C"]], skew=False), ["A", "C"], forms=af)
    reg("heat_tiny_sigma", lambda P: persim.heat(P["A8"], P["C"], sigma=0.05), ["A8", "C"], forms=af)
    reg("sliced_wasserstein_M131", lambda P: persim.sliced_wasserstein(P["A8"], P["B8"], M=131), ["A8", "B8"], forms=bf)
    reg("gromov_hausdorff_order_zero", lambda P: (np.random.seed(5), persim.gromov_hausdorff(P["CY6"], P["ST5"], mapping_sample_size_order=P["order0"]))[1], ["CY6", "ST5", "order0"], forms=("list", "int"))

    # ---- LONG-LIVED objects shared by successive calls (one imager / transformer / landscape per pool): a
    # method that rescales, caches or otherwise edits the object's own state shows as another result
    reg("shared_imager_transform", lambda P: P["IM"].transform(P["A"]), ["IM", "A"], forms=af)
    reg("shared_imager_transform_collection_n_jobs", lambda P: P["IM"].transform([P["A"], P["C"]], n_jobs=1), ["IM", "A", "C"], forms=af)
    reg("shared_imager_scalar_sigma_noskew", lambda P: P["IMS"].transform(P["B"], skew=False), ["IMS", "B"], forms=af)
    reg("shared_imager_uniform", lambda P: P["IMU"].transform([P["B"], P["A"]]), ["IMU", "A", "B"], forms=af)
    reg("shared_landscaper_transform", lambda P: P["LSF"].transform([P["A8"], P["B"]]), ["LSF", "A8", "B"], forms=af)
    reg("shared_exact_landscape_ops", lambda P: [P["PLX"].p_norm(2), P["PLX"][0], (2 * P["PLX"] - P["PLX"] / 3).sup_norm(), vectorize(P["PLX"], num_steps=6), P["PLX"]], ["PLX"], forms=("f64",))
    reg("shared_approx_landscape_ops", lambda P: [P["PLA"].p_norm(3), (P["PLA"] + P["PLA"]).values, snap_pl([P["PLA"], P["PLA"]], num_steps=5), average_approx([P["PLA"], P["PLA"] * 3]), P["PLA"]], ["PLA"], forms=("f64",))

    # ---- kernels and weights called directly --------------------------------------------------
    from persim import images_kernels as ik, images_weights as iw

    kf = ("f64",)
    reg("kernel_gaussian_corr", lambda P: ik.gaussian(P["X"], P["Y"], mu=P["mu"], sigma=P["sigma"]), ["X", "Y", "mu", "sigma"], forms=kf)
    reg("kernel_gaussian_default", lambda P: ik.gaussian(P["X"], P["Y"]), ["X", "Y"], forms=kf)
    reg("kernel_uniform", lambda P: ik.uniform(P["X"], P["Y"], mu=P["mu"], width=2.0, height=1.0), ["X", "Y", "mu"], forms=kf)
    reg("kernel_bvn_high_corr", lambda P: ik.bvn_cdf(P["X"], P["Y"], mu_x=0.5, mu_y=1.0, sigma_xx=1.0, sigma_yy=2.0, sigma_xy=-1.35), ["X", "Y"], forms=kf)
    reg("kernel_bvn_mid_corr", lambda P: ik.bvn_cdf(P["X"], P["Y"], mu_x=0.5, mu_y=1.0, sigma_xx=1.0, sigma_yy=2.0, sigma_xy=1.15), ["X", "Y"], forms=kf)
    reg("kernel_bvn_low_corr", lambda P: ik.bvn_cdf(P["Y"], P["X"], sigma_xy=0.2), ["X", "Y"], forms=kf)
    reg("kernel_bvn_035_corr", lambda P: ik.bvn_cdf(P["Y"], P["X"], sigma_xy=-0.5), ["X", "Y"], forms=kf)
    reg("weight_linear_ramp", lambda P: iw.linear_ramp(P["X"], P["Y"], low=0.0, high=2.0, start=0.5, end=1.5), ["X", "Y"], forms=kf)
    reg("weight_persistence", lambda P: iw.persistence(P["X"], P["Y"], n=2.0), ["X", "Y"], forms=kf)

    # ---- plots -------------------------------------------------------------------------------
    def pd_(P, **kw):
        ax = _fresh_ax()
        persim.plot_diagrams(P["A"] if kw.pop("single", False) else [P["A"], P["B"]], ax=ax, **kw)
        return ax

    pf = ("int", "f64", "f32")
    reg("plot_diagrams", lambda P: pd_(P), ["A", "B"], plot=True, forms=pf)
    reg("plot_diagrams_lifetime", lambda P: pd_(P, lifetime=True, labels=P["labels"]), ["A", "B", "labels"], plot=True, forms=pf)
    reg("plot_diagrams_single_inf", lambda P: (lambda ax: (persim.plot_diagrams(P["I"], ax=ax, lifetime=True, title="t"), ax)[1])(_fresh_ax()), ["I"], plot=True, forms=("f64", "f32"))
    reg("plot_diagrams_short_labels", lambda P: pd_(P, labels=P["labels1"], legend=True), ["A", "B", "labels1"], plot=True, forms=pf)
    reg("plot_diagrams_options", lambda P: pd_(P, labels=P["labels"], colormap="seaborn-v0_8", size=35, ax_color=P["ax_color"], diagonal=False, lifetime=True, title="T"), ["A", "B", "labels", "ax_color"], plot=True, forms=pf)
    reg("plot_diagrams_plot_only", lambda P: pd_(P, plot_only=P["plot_only"], xy_range=P["xy_range"], legend=False), ["A", "B", "plot_only", "xy_range"], plot=True, forms=pf)

    def bm(P):
        ax = _fresh_ax()
        d, m = persim.bottleneck(P["A"], P["B"], matching=True)
        persim.bottleneck_matching(P["A"], P["B"], m, ax=ax)
        return ax

    def bm_labels(P):
        ax = _fresh_ax()
        persim.bottleneck_matching(P["A"], P["B"], P["M"], labels=P["labels"], ax=ax)
        return ax

    def wm(P):
        ax = _fresh_ax()
        persim.wasserstein_matching(P["A"], P["B"], P["M"], ax=ax)
        return ax

    reg("bottleneck_matching_plot", bm, ["A", "B"], plot=True, forms=pf)
    reg("bottleneck_matching_plot_labels", bm_labels, ["A", "B", "M", "labels"], plot=True, forms=pf)
    reg("wasserstein_matching_plot", wm, ["A", "B", "M"], plot=True, forms=pf)

    def im_plots(P):
        im = imager(birth_range=(0.0, 3.0), pers_range=(0.0, 3.0))
        ax = _fresh_ax()
        im.plot_diagram(P["A"], ax=ax)
        s1 = axes_summary(ax)
        ax2 = _fresh_ax()
        im.plot_diagram(P["A"], skew=False, ax=ax2)
        s2 = axes_summary(ax2)
        ax3 = _fresh_ax()
        im.plot_image(P["IMG"], ax=ax3)
        return [s1, s2, axes_summary(ax3)]

    reg("imager_plots", im_plots, ["A", "IMG"], plot=True, forms=("int", "f64", "f32"))

    def ls_plot(P):
        import matplotlib.pyplot as plt

        plt.close("all")
        fig, ax = plt.subplots()
        plot_landscape_simple(ple(P), ax=ax)
        s1 = axes_summary(ax)
        fig, ax = plt.subplots()
        plot_landscape_simple(pla(P), ax=ax)
        return [s1, axes_summary(ax)]

    reg("plot_landscape_simple", ls_plot, ["A", "B"], plot=True, forms=lf)
    return T


# value variants of the diagram arguments: x -> a*x + c on every coordinate.  The base diagrams contain
# the special value 0 (a smallest birth of exactly 0 hides "shift to the origin" / falsy-zero slips);
# variant 1 has no zero, variant 2 has fractional coordinates (no integer form), variant 3 is negative.
VARIANTS = [(1, 0), (1, 3), (0.5, 1.25), (1, -4)]
def vary(D, variant):
    a, c = VARIANTS[variant]
    return [[a * x + c for x in p] for p in D]


def variant_forms(variant, forms):
    fs = [f for f in forms if not (f == "int" and variant == 2)]
    return fs + (["f64F"] if "f64" in fs else [])


def _imager(**kw):
    from persim import PersistenceImager

    return PersistenceImager(pixel_size=0.5, birth_range=(0.0, 3.0), pers_range=(0.0, 3.0), **kw)


def _landscaper(Da, Db):
    from persim import PersistenceLandscaper

    return PersistenceLandscaper(hom_deg=0, num_steps=9).fit([np.array(Da, dtype=float), np.array(Db, dtype=float)])


def _exact(D):
    from persim import PersLandscapeExact

    return PersLandscapeExact(dgms=[np.array(D, dtype=float)], hom_deg=0)


def _approx(D):
    from persim import PersLandscapeApprox

    return PersLandscapeApprox(dgms=[np.array(D, dtype=float)], hom_deg=0, num_steps=11)


def _csr_with_zeros(A):
    """Upper-triangular CSR adjacency with the non-edges (0, 2) and (1, 3) explicitly stored as zeros."""
    import scipy.sparse as sps

    A = np.triu(np.array(A), 1)
    r, c = np.nonzero(A)
    rows = np.concatenate([r, [0, 1]])
    cols = np.concatenate([c, [2, 3]])
    data = np.concatenate([np.ones(len(r)), [0.0, 0.0]])
    return sps.csr_matrix((data, (rows, cols)), shape=A.shape)


def make_pool(f, variant=0):
    """Shared argument objects; diagrams in container form f (graphs: list or int array)."""
    gf = "list" if f == "list" else "int"
    dform = f
    D1, D2, D3, DI, D8A, D8B, DIL = [vary(D, variant) for D in _BASE]
    P = {
        "A": form(D1, dform), "B": form(D2, dform), "C": form(D3, dform),
        "I": form(DI, dform if dform in ("list", "f32", "f64F") else "f64"),
        "IL": form(DIL, dform if dform in ("list", "f32", "f64F") else "f64"),
        "G1": form(G1, gf), "G2": form(G2, gf), "G3": form(G3, gf),
        "CY6": form(cycle(6), gf), "CY8": form(cycle(8), gf), "ST5": form(star(5), gf),
        "GR34": form(grid_graph(3, 4), gf), "GR35": form(grid_graph(3, 5), gf), "TR15": form(binary_tree(15), gf), "CY14": form(cycle(14), gf),
        "SP_CSR0": _csr_with_zeros(cycle(6)), "SP_CSC": __import__("scipy.sparse").sparse.csc_matrix(np.array(star(5))),
        "SP_LIL": __import__("scipy.sparse").sparse.lil_matrix(np.array(G1)),
        "order": np.array([1.0, 1.0]), "order0": np.array([0.0, 2.0]), "coeffs": [2.0, -1.0], "labels": ["first", "second"], "labels1": ["only"], "sigma_hc": np.array([[0.01, 0.0096], [0.0096, 0.01]]), "ax_color": np.array([0.1, 0.2, 0.3]),
        "VALS": form([[0, 1, 2, 1, 0], [0, 0, 1, 0, 0]], "f64" if f == "list" else f),
        "CP": [[[0.0, 0.0], [1.0, 1.0], [2.5, -0.5], [4.0, 0.0]], [[1.0, 0.0], [2.0, 1.0], [3.0, 0.0]]],
        "val_inf_low": VARIANTS[variant][0] * 2.5 + VARIANTS[variant][1], "win": [VARIANTS[variant][0] * 1.0 + VARIANTS[variant][1], VARIANTS[variant][0] * 6.5 + VARIANTS[variant][1]],
        "stop": VARIANTS[variant][0] * 12.0 + VARIANTS[variant][1] + 4.0,
        "plot_only": [1], "xy_range": [-1.0, 7.0, -1.0, 7.0],
        "M": np.array([[0.0, 0.0, 1.0], [1.0, 1.0, 2.0], [2.0, -1.0, 0.5]]),
        "IMG": np.arange(36, dtype=float).reshape(6, 6) / 36.0,
        "A8": form(D8A, dform), "B8": form(D8B, dform),
        "IM": _imager(kernel_params={"sigma": [[0.25, 0.0], [0.0, 0.25]]}), "IMS": _imager(kernel_params={"sigma": 0.09}),
        "IMU": _imager(kernel="uniform", kernel_params={"width": 1.0, "height": 0.5}),
        "LSF": _landscaper(D8A, D2), "PLX": _exact(D3), "PLA": _approx(D3),
        "X": np.array([-1.0, 0.0, 0.5, 1.0, 2.5]), "Y": np.array([0.25, 1.0, 0.5, 2.0, 1.5]),
        "mu": np.array([0.5, 1.0]), "sigma": np.array([[1.0, 0.6], [0.6, 2.0]]),
    }
    return P


def defaults_fingerprint():
    """Fingerprint of every function default and module-level constant of persim."""
    out = []
    mods = [m for n, m in sorted(sys.modules.items()) if (n == "persim" or n.startswith("persim.")) and m is not None]
    for m in mods:
        for name, obj in sorted(vars(m).items()):
            if name.startswith("__"):
                continue
            # public module constants only: a private (underscore) cache may legitimately change
            if isinstance(obj, (np.ndarray, list, dict, set)) and name.isupper() and not name.startswith("_"):
                out.append((m.__name__, name, snapshot(obj) if not isinstance(obj, set) else repr(sorted(obj))))
            fns = []
            if inspect.isfunction(obj) and getattr(obj, "__module__", "") == m.__name__:
                fns.append((name, obj))
            elif inspect.isclass(obj) and getattr(obj, "__module__", "") == m.__name__:
                for mn, mo in sorted(vars(obj).items()):
                    if inspect.isfunction(mo):
                        fns.append((name + "." + mn, mo))
            for fname, fn in fns:
                if fn.__defaults__:
                    out.append((m.__name__, fname, snapshot(list(fn.__defaults__))))
                if fn.__kwdefaults__:
                    out.append((m.__name__, fname, snapshot(dict(fn.__kwdefaults__))))
    return out


def bounds(tier):
    return {"thunks": len(thunks()), "forms": ["list", "int", "f64", "f32", "f64F (column-major transposed view)"], "sequence_length": 3 if tier == "quick" else 4}


def eval_all_in_order(order_names):
    """Helper run in a FRESH interpreter: evaluate the given thunks once each, in the given order, on a
    float64 pool; returns {name: canonical result}."""
    import matplotlib.pyplot as plt

    T = thunks()
    out = {}
    for name in order_names:
        P = make_pool("f64")
        with warnings.catch_warnings():
            warnings.simplefilter("ignore")
            with contextlib.redirect_stdout(io.StringIO()):
                try:
                    out[name] = canon(T[name]["fn"](P))
                except Exception as e:  # noqa: BLE001
                    out[name] = "EXC %s" % type(e).__name__
        plt.close("all")
    return out


def order_differential(ctx):
    """Every thunk evaluated once in a fresh process in alphabet order, once in another fresh process in
    REVERSE order (and once in an interleaved order): a result that depends on which other calls came
    before it in the process differs between the runs."""
    import json
    import subprocess

    names = list(thunks())
    orders = {"forward": names, "reverse": names[::-1], "interleaved": names[::2] + names[1::2][::-1]}
    results = {}
    for label, order in orders.items():
        code = ("import sys, json; sys.path.insert(0, %r); from mc import env; from checks import c19; "
                "print('RESULT' + json.dumps(c19.eval_all_in_order(json.loads(sys.argv[1]))))" % (__import__("mc.env").env.VERIF,))
        p = subprocess.run([sys.executable, "-B", "-c", code, json.dumps(order)], capture_output=True, text=True, cwd=__import__("mc.env").env.VERIF)
        ctx.trans(len(order))
        line = [l for l in p.stdout.splitlines() if l.startswith("RESULT")]
        if p.returncode != 0 or not line:
            from mc.ctx import HarnessError

            raise HarnessError("order-differential helper failed: %s" % p.stderr[-800:])
        results[label] = json.loads(line[0][6:])
    # the same forward order in fresh interpreters under OTHER hash seeds (string / bytes hashing salted
    # differently): every result except WHICH optimal bottleneck matching is returned must be the same
    for hs in (101, 2024):
        p = subprocess.run([sys.executable, "-B", "-c", code, json.dumps(names)], capture_output=True, text=True, cwd=__import__("mc.env").env.VERIF,
                           env=dict(__import__("os").environ, PYTHONHASHSEED=str(hs)))
        ctx.trans(len(names))
        line = [l for l in p.stdout.splitlines() if l.startswith("RESULT")]
        if p.returncode != 0 or not line:
            from mc.ctx import HarnessError

            raise HarnessError("hash-seed differential helper failed: %s" % p.stderr[-800:])
        other = json.loads(line[0][6:])
        for name in names:
            ctx.valid()
            ctx.state(("hashseed", hs, name))
            a_, b_ = other[name], results["forward"][name]
            if "bottleneck" in name and name not in ("bottleneck", "bottleneck_other_shape"):
                # any optimal matching may be returned: compare the distance only
                a_ = a_[0] if isinstance(a_, list) and a_ else a_
                b_ = b_[0] if isinstance(b_, list) and b_ else b_
                if "plot" in name:
                    continue
            if json.dumps(a_, sort_keys=True) != json.dumps(b_, sort_keys=True):
                ctx.violation("hash-seed-dependent", "%s gives another result in an interpreter with PYTHONHASHSEED=%d (same NumPy seeds, same call order)" % (name, hs),
                              observed=a_, expected=b_, extra={"thunk": name, "PYTHONHASHSEED": hs})
    base = results["forward"]
    for label in ("reverse", "interleaved"):
        for name in names:
            ctx.valid()
            ctx.state(("order", label, name))
            if json.dumps(results[label][name], sort_keys=True) != json.dumps(base[name], sort_keys=True):
                ctx.violation("history-dependent", "%s gives another result when the other entry points are called in %s order before it (fresh processes)" % (name, label),
                              observed=results[label][name], expected=base[name], extra={"thunk": name, "order": label})
    ctx.nontriv("order_differential_over_%d_thunks" % len(names))
    ctx.outcome(("order-differential", len(names)))


def cases(tier):
    yield {"kind": "order-differential"}
    T = thunks()
    names = list(T)
    for v in range(len(VARIANTS)):
        for n in names:
            yield {"kind": "A", "thunk": n, "variant": v}
    for f in names:
        yield {"kind": "B-row", "f": f}
    if tier == "quick":
        sub = [n for n in names if not T[n]["plot"]][::6]
        for f in sub:
            for g in sub:
                yield {"kind": "B4-row", "f": f, "g": g, "subset": True}
    if tier == "thorough":
        nonplot = [n for n in names if not T[n]["plot"]]
        for f in nonplot:
            for g in nonplot:
                yield {"kind": "B4-row", "f": f, "g": g}


_CALLS = [0]


def _poison_heap(P, k):
    """Freshly freed heap blocks of the sizes the library is likely to allocate are filled with a value that
    changes from call to call: a buffer obtained with np.empty and not written completely makes the result
    differ between two calls (instead of reading, by luck, the same zeros twice)."""
    sizes = {1, 2, 3, 4, 5, 6, 9, 16, 25, 36, 49, 64, 81, 169, 289}
    for v in P.values():
        if isinstance(v, np.ndarray):
            sizes.update([int(v.size), int(v.shape[0])])
    junk = [np.full(m, 1000.0 * k + 0.5) for n in sorted(sizes) if n > 0 for m in (n, n + 1, 2 * n)]
    del junk


def call(ctx, T, name, P):
    import random

    # every call runs under a different state of the stdlib generator (and of anything else seeded
    # from it): only NumPy's generator is re-seeded by the mGH thunks, so a result that depends on
    # another random source is not reproducible
    _CALLS[0] += 1
    random.seed(_CALLS[0])
    _poison_heap(P, _CALLS[0])
    ctx.trans()
    with warnings.catch_warnings():
        warnings.simplefilter("ignore")
        with contextlib.redirect_stdout(io.StringIO()):
            return canon(T[name]["fn"](P))


def run_case(case, ctx):
    import matplotlib.pyplot as plt

    try:
        if case["kind"] == "order-differential":
            order_differential(ctx)
        elif case["kind"] == "A":
            check_A(case, ctx)
        elif case["kind"] == "B-row":
            check_B(case, ctx)
        else:
            check_B4(case, ctx)
    finally:
        plt.close("all")


def check_A(case, ctx):
    T = thunks()
    name = case["thunk"]
    variant = case.get("variant", 0)
    spec = T[name]
    results = {}
    fp0 = defaults_fingerprint()
    for f in variant_forms(variant, spec["forms"]):
        P = make_pool(f, variant)
        before = {k: snapshot(P[k]) for k in P}
        ctx.state((name, f, variant))
        try:
            r1 = call(ctx, T, name, P)
        except Exception as e:  # noqa: BLE001
            ctx.violation("form-rejected", "%s no longer accepts %s input: %s: %s" % (name, f, type(e).__name__, e), extra={"thunk": name, "form": f, "variant": variant})
            continue
        ctx.valid(3)
        changed = [k for k in P if snapshot(P[k]) != before[k]]
        if changed:
            ctx.violation("argument-modified", "%s modified its argument(s) %s (form %s)" % (name, changed, f),
                          observed={k: canon(P[k]) if not isinstance(P[k], list) else P[k] for k in changed}, extra={"thunk": name, "form": f})
            P = make_pool(f, variant)
        r2 = call(ctx, T, name, P)
        if r1 != r2:
            ctx.violation("not-repeatable", "%s: a repeated call on the same arguments gives another result (form %s)" % (name, f),
                          observed=r2, expected=r1, extra={"thunk": name, "form": f})
        results[f] = r1
        if defaults_fingerprint() != fp0:
            ctx.violation("default-modified", "%s modified a function default or module constant" % name, extra={"thunk": name, "form": f})
            fp0 = defaults_fingerprint()
    ctx.outcome((name, results.get("f64")))
    # representation independence
    base = results.get("f64", None)
    for f, r in results.items():
        ctx.valid()
        if base is not None and f != "f64" and not loosely_equal(r, base):
            ctx.violation("representation-dependent", "%s: %s input gives another result than float64 arrays of equal value" % (name, f),
                          observed=r, expected=base, extra={"thunk": name, "form": f})
    if len(results) > 1:
        ctx.nontriv("several_forms_compared")


def loosely_equal(a, b, tol=1e-6):
    """Equality of canonical results up to single-precision noise (float32 inputs)."""
    if isinstance(a, (int, float)) and isinstance(b, (int, float)) and not isinstance(a, bool) and not isinstance(b, bool):
        return abs(a - b) <= tol * max(1.0, abs(a), abs(b))
    if isinstance(a, list) and isinstance(b, list):
        return len(a) == len(b) and all(loosely_equal(x, y, tol) for x, y in zip(a, b))
    if isinstance(a, dict) and isinstance(b, dict):
        return a.keys() == b.keys() and all(loosely_equal(a[k], b[k], tol) for k in a)
    return a == b


def check_B(case, ctx):
    T = thunks()
    f = case["f"]
    for gi, g in enumerate(T):
        P = make_pool("f64", (gi + len(f)) % len(VARIANTS))
        before = {k: snapshot(P[k]) for k in P}
        fp0 = defaults_fingerprint()
        ctx.state(("seq", f, g))
        r1 = call(ctx, T, f, P)
        call(ctx, T, g, P)
        r3 = call(ctx, T, f, P)
        ctx.valid(3)
        if f != g and set(T[f]["uses"]) & set(T[g]["uses"]):
            ctx.nontriv("two_thunks_sharing_arguments", key=("seq", f, g))
        if r1 != r3:
            ctx.violation("history-dependent", "%s gives another result after a call to %s" % (f, g), observed=r3, expected=r1, extra={"sequence": [f, g, f]})
        changed = [k for k in P if snapshot(P[k]) != before[k]]
        if changed:
            ctx.violation("argument-modified", "sequence %s;%s;%s modified shared argument(s) %s" % (f, g, f, changed), extra={"sequence": [f, g, f]})
        if defaults_fingerprint() != fp0:
            ctx.violation("default-modified", "sequence %s;%s;%s modified a function default or module constant" % (f, g, f), extra={"sequence": [f, g, f]})
    ctx.outcome(("B", f))


def check_B4(case, ctx):
    T = thunks()
    f, g = case["f"], case["g"]
    nonplot = [n for n in T if not T[n]["plot"]]
    if case.get("subset"):
        nonplot = nonplot[::6]
    for hi, h in enumerate(nonplot):
        P = make_pool("f64", (hi + len(f) + len(g)) % len(VARIANTS))
        before = {k: snapshot(P[k]) for k in P}
        ctx.state(("seq4", f, g, h))
        r1 = call(ctx, T, f, P)
        call(ctx, T, g, P)
        call(ctx, T, h, P)
        r4 = call(ctx, T, f, P)
        ctx.valid(2)
        if r1 != r4:
            ctx.violation("history-dependent", "%s gives another result after %s;%s" % (f, g, h), observed=r4, expected=r1, extra={"sequence": [f, g, h, f]})
        if any(snapshot(P[k]) != before[k] for k in P):
            ctx.violation("argument-modified", "sequence modified a shared argument", extra={"sequence": [f, g, h, f]})
