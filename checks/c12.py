"""C12 — imager geometry stays self-consistent under any configuration history (explorer B)."""
import itertools

import numpy as np

from mc import history

PROPERTY = "C12"
RANGES = [(0, 0.3), (0, 1), (0.0, 1.0), (-0.5, 0.7), (0.1, 0.8), (0, 1.00001), (0.2, 0.79999)]
PIXELS = [0.1, 0.2, 0.3, 1.0 / 3.0, 0.7, 1]
DATA = {
    "a": [[[0.0, 1.0], [0.5, 1.2]]],
    "b": [[[0.0, 2.0], [1.0, 1.5]], [[-0.25, 0.5], [0.75, 1.0]]],
    "c": [[[0.1, 0.4], [0.3, 1.0], [0.2, 0.9]]],
}
# five diagrams, each of the four extremes (smallest / largest birth, smallest / largest persistence) attained in a
# different one, none of them in the last (a running minimum / maximum that forgets earlier diagrams shows)
DATA["d"] = [[[-0.5, 0.3]], [[0.2, 0.3]], [[0.1, 1.9]], [[1.1, 1.6]], [[0.4, 0.9]]]
DATA["c32"] = DATA["c"]                      # the same values as a float32 array
DATA["i"] = [[[0, 2], [1, 3], [1, 2]]]       # an integer array
DTYPE = {"c32": np.float32, "i": np.int64}
# data sets of one shape, written into ONE array object per imager history (a caller refilling a buffer)
DATA["p"] = [[[0.0, 1.0], [0.5, 1.2], [0.25, 0.5]]]
DATA["q"] = [[[-1.0, 2.0], [1.0, 1.5], [3.0, 4.5]]]


def data_arrays(key):
    return [np.array(d, dtype=DTYPE.get(key, float)) for d in DATA[key]]


def buffered_arg(im, op):
    """The argument object for a fit through a reused container: ONE (3,2) array (fit_buf) or ONE list
    (fit_listbuf) per imager, refilled in place with the requested data set."""
    store = im.__dict__.setdefault("_verif_buffers", {"arr": np.zeros((3, 2)), "lst": []})
    dg = data_arrays(op[1])
    if op[0] == "fit_buf":
        store["arr"][...] = dg[0]
        return store["arr"], dg
    store["lst"].clear()
    store["lst"].extend(dg)
    return store["lst"], dg


SIGMA_STD = 0.0003  # narrow probe kernel: (smallest pixel)/40
RULE = (
    "BFS over configuration histories of REAL PersistenceImager objects: initial states = all "
    "constructor products birth_range x pers_range x pixel_size (7x7x6; ranges include extents just above / below a multiple of the pixel) + defaults; operations = "
    "birth_range=r (7), pers_range=r (7), pixel_size=s (6), fit(D) for 3 data sets x skew on/off (6) + a float32 and an integer data set (3) + a 5-diagram collection with every extreme in another diagram (2) + fits through ONE reused array / list object refilled in place (4), fit_transform(D) for 2 data sets x skew on/off (4); "
    "depth 2 (quick) / 3 (thorough), plus the FULL tree of histories (no de-duplication) to depth 4 (5) over a reduced 9-operation alphabet from 3 states; states de-duplicated on the public geometry "
    "(ranges, width, height, resolution, pixel_size) with differential continuation of merged states. "
    "Every state: resolution*pixel = width/height = range extents, transform shape = resolution, "
    "black-box pixel probe (narrow kernel at predicted pixel centres). Every transition: covered "
    "range contains what was asked for and exceeds it by <= one pixel. state = canonical geometry; "
    "transition = one real setter/fit/constructor call; non-trivial = quotient extent/pixel is not an "
    "integer in floating point (padding needed) or the history has >= 2 operations."
)
ASSUMPTIONS = [
    "pixel geometry is observed only through public attributes and through transform() of a probe diagram",
    "tolerance 1e-9 x pixel on containment / excess, 0.99 of a narrow kernel's mass in the predicted pixel",
]


def bounds(tier):
    return {"ranges": RANGES, "pixels": PIXELS, "data": list(DATA), "depth": 2 if tier == "quick" else 3,
            "n_init": len(inits()), "n_ops": len(OPS)}


def inits():
    out = [{"birth_range": list(b), "pers_range": list(p), "pixel_size": s}
           for b, p, s in itertools.product(RANGES, RANGES, PIXELS)]
    out.append({})
    # imagers with a built-in weight that is zero below a persistence threshold
    out += [{"weight": "ramp"}, {"weight": "ramp", "ramp_start": 0.95, "pixel_size": 0.3}, {"weight": "ramp", "birth_range": [0, 1], "pers_range": [-0.5, 0.7], "pixel_size": 0.2},
            {"weight": "ramp", "ramp_start": 1.6, "birth_range": [0.1, 0.8], "pers_range": [0, 0.3], "pixel_size": 0.1}]
    # asymmetric high-resolution states (tens of pixels along one axis only)
    out += [{"birth_range": [0, 0.3], "pers_range": [0, 1], "pixel_size": 0.025},
            {"birth_range": [-0.5, 0.7], "pers_range": [0.1, 0.8], "pixel_size": 0.0125},
            {"birth_range": [0, 1], "pers_range": [0, 0.3], "pixel_size": 1.0 / 64.0},
            {"birth_range": [0.0, 0.05], "pers_range": [0.0, 2.5], "pixel_size": 0.05}]
    return out


OPS = ([["birth_range", list(r)] for r in RANGES] + [["pers_range", list(r)] for r in RANGES]
       + [["pixel_size", s] for s in PIXELS] + [["fit", k, sk] for k in ("a", "b", "c") for sk in (True, False)]
       + [["fit", "c32", True], ["fit", "i", True], ["fit", "i", False], ["fit", "d", True], ["fit", "d", False]]
       + [["fit_buf", "p", True], ["fit_buf", "q", True], ["fit_listbuf", "b", True], ["fit_listbuf", "q", True]]
       + [["fit_transform", k, sk] for k in ("a", "c") for sk in (True, False)])


def unit_weight(b, p):
    return np.ones(len(b))


def make(init):
    from persim import PersistenceImager

    kw = {}
    if "birth_range" in init:
        kw["birth_range"] = tuple(init["birth_range"])
    if "pers_range" in init:
        kw["pers_range"] = tuple(init["pers_range"])
    if "pixel_size" in init:
        kw["pixel_size"] = init["pixel_size"]
    if init.get("weight") == "ramp":
        # a weight that vanishes on part of the plane (persistence below `start`): what a fit has to cover is
        # still every fitted point, whatever weight it will get
        return PersistenceImager(weight="linear_ramp", weight_params={"low": 0.0, "high": 1.0, "start": init.get("ramp_start", 0.5), "end": 2.0},
                                 kernel_params={"sigma": SIGMA_STD ** 2}, **kw)
    return PersistenceImager(weight=unit_weight, weight_params={}, kernel_params={"sigma": SIGMA_STD ** 2}, **kw)


def geom(im):
    return {
        "birth_range": [float(im.birth_range[0]), float(im.birth_range[1])],
        "pers_range": [float(im.pers_range[0]), float(im.pers_range[1])],
        "pixel_size": float(im.pixel_size),
        "width": float(im.width),
        "height": float(im.height),
        "resolution": [int(im.resolution[0]), int(im.resolution[1])],
    }


def canon(g):
    # exact doubles: states that differ in the last digit can have different futures (ceil of a quotient)
    r = lambda x: float(x).hex()  # noqa: E731
    return (r(g["birth_range"][0]), r(g["birth_range"][1]), r(g["pers_range"][0]), r(g["pers_range"][1]),
            r(g["pixel_size"]), r(g["width"]), r(g["height"]), tuple(g["resolution"]))


def invariant(ctx, im, where, first_level=True):
    """State invariant; returns False if the geometry is broken (the history is then not extended)."""
    g = geom(im)
    px = g["pixel_size"]
    tol = 1e-9 * px + 8 * 2.3e-16 * max(abs(v) for v in g["birth_range"] + g["pers_range"])   # relative to the PIXEL (+ a few ulps of the coordinates)
    ok = True
    bad = lambda sig, msg, o=None, e=None: ctx.violation(sig, "%s [%s]" % (msg, where), observed=o, expected=e, extra={"geometry": g})  # noqa: E731
    ctx.valid(3)
    res = g["resolution"]
    if not (isinstance(im.resolution[0], (int, np.integer)) and isinstance(im.resolution[1], (int, np.integer))) or min(res) < 1:
        bad("resolution-type", "resolution is not a pair of positive integers", repr(im.resolution))
        return False
    if abs(res[0] * px - g["width"]) > tol * res[0] or abs(res[1] * px - g["height"]) > tol * res[1]:
        bad("resolution-times-pixel", "resolution * pixel_size != covered width/height",
            [res[0] * px, res[1] * px], [g["width"], g["height"]])
        ok = False
    bw = g["birth_range"][1] - g["birth_range"][0]
    ph = g["pers_range"][1] - g["pers_range"][0]
    if abs(bw - g["width"]) > tol * max(1, res[0]) or abs(ph - g["height"]) > tol * max(1, res[1]):
        bad("extent", "width/height differ from the extent of the covered ranges", [g["width"], g["height"]], [bw, ph])
        ok = False
    # black-box probe: unit-weight narrow kernels at the predicted centres of border + middle pixels
    n0, n1 = res
    probe = set()
    for i in range(n0):
        probe.update([(i, 0), (i, n1 - 1)])
    for j in range(n1):
        probe.update([(0, j), (n0 - 1, j)])
    probe.add((n0 // 2, n1 // 2))
    probe = sorted(probe)
    pts = np.array([[g["birth_range"][0] + (i + 0.5) * px, g["pers_range"][0] + (j + 0.5) * px] for i, j in probe])
    saved_w = (im.weight, im.weight_params, im.kernel_params)
    im.weight, im.weight_params = unit_weight, {}      # the probe needs unit weights; the imager's own weight is restored below
    im.kernel_params = {"sigma": (px / 40.0) ** 2}       # ... and a kernel that is narrow RELATIVE TO THE PIXEL
    try:
        return _probe(ctx, im, g, px, n0, n1, probe, pts, bad, ok, first_level)
    finally:
        im.weight, im.weight_params, im.kernel_params = saved_w


def _probe(ctx, im, g, px, n0, n1, probe, pts, bad, ok, first_level):
    # "every image produced": also through the joblib path (n_jobs given), alone and inside a collection
    for what, out in (("transform(D, n_jobs=1)", ctx.call(im.transform, pts[:1], skew=False, n_jobs=1)),
                      ("transform([D, D], n_jobs=1)[1]", ctx.call(im.transform, [pts[:1], pts[:2]], skew=False, n_jobs=1)[1])):
        ctx.valid()
        if np.asarray(out).shape != (n0, n1):
            bad("image-shape", "%s output shape differs from the reported resolution" % what, list(np.asarray(out).shape), [n0, n1])
            return False
    img = np.asarray(ctx.call(im.transform, pts, skew=False))
    ctx.valid()
    if img.shape != (n0, n1):
        bad("image-shape", "transform() output shape differs from the reported resolution", list(img.shape), [n0, n1])
        return False
    want = np.zeros((n0, n1))
    for i, j in probe:
        want[i, j] = 1.0
    err = np.abs(img - want)
    if err.max() > 0.01:
        i, j = np.unravel_index(np.argmax(err), err.shape)
        bad("pixel-probe", "a narrow kernel at the predicted centre of a pixel does not land (only) in that pixel: "
            "pixels are not squares of the configured size anchored at the covered range",
            {"pixel": [int(i), int(j)], "mass": float(img[i, j])}, float(want[i, j]))
        ok = False
    # the same statement for the other built-in kernels (kernel and kernel_params are public attributes of the
    # imager): a uniform box of half a pixel centred in a pixel lies inside that pixel, so the image is again
    # exactly the indicator of the probed pixels; a correlated Gaussian must at least produce the reported shape
    from persim import images_kernels

    if (n0 == n1 or n0 * n1 > 400) and not first_level:
        return ok        # (square or high-resolution grids beyond the first level: the Gaussian probe above decides them)
    saved = (im.kernel, im.kernel_params)
    try:
        im.kernel, im.kernel_params = images_kernels.uniform, {"width": px / 2.0, "height": px / 2.0}
        img = np.asarray(ctx.call(im.transform, pts, skew=False))
        ctx.valid()
        if img.shape != (n0, n1):
            bad("image-shape", "transform() output shape differs from the reported resolution (uniform kernel)", list(img.shape), [n0, n1])
            ok = False
        elif np.abs(img - want).max() > 1e-6:
            i, j = np.unravel_index(np.argmax(np.abs(img - want)), img.shape)
            bad("pixel-probe", "a uniform box of half a pixel centred in a pixel does not land (only) in that pixel",
                {"pixel": [int(i), int(j)], "mass": float(img[i, j])}, float(want[i, j]))
            ok = False
        im.kernel, im.kernel_params = images_kernels.gaussian, {"sigma": np.array([[px * px, 0.5 * px * px], [0.5 * px * px, 2 * px * px]])}
        img = np.asarray(ctx.call(im.transform, pts[:2], skew=False))
        ctx.valid()
        if img.shape != (n0, n1):
            bad("image-shape", "transform() output shape differs from the reported resolution (correlated Gaussian kernel)", list(img.shape), [n0, n1])
            ok = False
    finally:
        im.kernel, im.kernel_params = saved
    return ok


def covers(ctx, sig, what, asked_lo, asked_hi, got_lo, got_hi, px, where, extra):
    tol = 1e-9 * px + 8 * 2.3e-16 * max(abs(asked_lo), abs(asked_hi), abs(got_lo), abs(got_hi))
    ctx.valid()
    if got_lo > asked_lo + tol or got_hi < asked_hi - tol:
        ctx.violation(sig + "-not-contained", "%s is not contained in the covered range [%s]" % (what, where),
                      observed=[got_lo, got_hi], expected=[asked_lo, asked_hi], extra=extra)
    elif (got_hi - got_lo) - (asked_hi - asked_lo) > px + tol:
        ctx.violation(sig + "-excess", "covered range exceeds %s by more than one pixel [%s]" % (what, where),
                      observed=[got_lo, got_hi], expected=[asked_lo, asked_hi], extra=extra)


def skewed(dgms, skew):
    pts = np.concatenate([np.asarray(d).astype(float) for d in dgms])
    if skew:
        pts = np.column_stack([pts[:, 0], pts[:, 1] - pts[:, 0]])
    return pts


def apply_op(ctx, im, op, where):
    before = geom(im)
    if op[0] == "birth_range":
        ctx.trans()
        im.birth_range = tuple(op[1])
        g = geom(im)
        covers(ctx, "birth-range", "the assigned birth range", op[1][0], op[1][1], g["birth_range"][0], g["birth_range"][1], g["pixel_size"], where, {"before": before, "after": g})
        unchanged(ctx, before, g, ("pers_range", "height", "pixel_size"), 1, where)
    elif op[0] == "pers_range":
        ctx.trans()
        im.pers_range = tuple(op[1])
        g = geom(im)
        covers(ctx, "pers-range", "the assigned persistence range", op[1][0], op[1][1], g["pers_range"][0], g["pers_range"][1], g["pixel_size"], where, {"before": before, "after": g})
        unchanged(ctx, before, g, ("birth_range", "width", "pixel_size"), 0, where)
    elif op[0] == "pixel_size":
        ctx.trans()
        im.pixel_size = op[1]
        g = geom(im)
        ctx.valid()
        if g["pixel_size"] != float(op[1]):
            ctx.violation("pixel-size-not-set", "pixel_size differs from the assigned value [%s]" % where, g["pixel_size"], op[1])
        for ax in ("birth_range", "pers_range"):
            covers(ctx, "pixel-size-" + ax, "the %s covered before the pixel-size change" % ax, before[ax][0], before[ax][1],
                   g[ax][0], g[ax][1], g["pixel_size"], where, {"before": before, "after": g})
    elif op[0] in ("fit", "fit_transform", "fit_buf", "fit_listbuf", "fit_u"):
        if op[0] == "fit_u":
            dg = [a * op[3] for a in data_arrays(op[1])]
            arg = dg[0] if len(dg) == 1 else dg
        elif op[0] in ("fit_buf", "fit_listbuf"):
            arg, dg = buffered_arg(im, op)
        else:
            dg = data_arrays(op[1])
            arg = dg[0] if len(dg) == 1 else dg
        ctx.trans()
        if op[0] != "fit_transform":
            im.fit(arg, skew=op[2])
        else:
            out = im.fit_transform(arg, skew=op[2])
            ctx.valid()
            shapes = [np.asarray(o).shape for o in (out if isinstance(out, list) else [out])]
            if any(sh != tuple(im.resolution) for sh in shapes):
                ctx.violation("image-shape", "fit_transform output shape differs from the reported resolution [%s]" % where,
                              observed=[list(sh) for sh in shapes], expected=list(im.resolution))
        g = geom(im)
        pts = skewed(dg, op[2])
        covers(ctx, "fit-birth", "the birth extent of the fitted points", pts[:, 0].min(), pts[:, 0].max(),
               g["birth_range"][0], g["birth_range"][1], g["pixel_size"], where, {"before": before, "after": g})
        covers(ctx, "fit-pers", "the persistence extent of the fitted points", pts[:, 1].min(), pts[:, 1].max(),
               g["pers_range"][0], g["pers_range"][1], g["pixel_size"], where, {"before": before, "after": g})
        ctx.valid()
        if g["pixel_size"] != before["pixel_size"]:
            ctx.violation("fit-changes-pixel", "fit changed the pixel size [%s]" % where, g["pixel_size"], before["pixel_size"])
    else:
        raise ValueError(op)


def unchanged(ctx, before, after, keys, res_index, where):
    ctx.valid()
    for k in keys:
        if before[k] != after[k] and not np.allclose(before[k], after[k], rtol=1e-12, atol=1e-9 * before["pixel_size"]):
            ctx.violation("other-axis-changed", "assigning one range changed %s of the other axis [%s]" % (k, where),
                          observed=after[k], expected=before[k])
    if before["resolution"][res_index] != after["resolution"][res_index]:
        ctx.violation("other-axis-changed", "assigning one range changed the resolution of the other axis [%s]" % where,
                      observed=after["resolution"], expected=before["resolution"])


def run_history(case, ctx):
    """Replay a whole history on a fresh imager, checking every transition and every state."""
    init, ops = case["init"], case["ops"]
    ctx.trans()
    im = make(init)
    g = geom(im)
    if not ops:
        px = g["pixel_size"]
        # construction: covered ranges contain the requested ones, exceed them by <= one pixel
        br = init.get("birth_range", [0.0, 1.0])
        pr = init.get("pers_range", [0.0, 1.0])
        covers(ctx, "ctor-birth", "the constructor's birth_range", br[0], br[1], g["birth_range"][0], g["birth_range"][1], px, "constructor", {"after": g})
        covers(ctx, "ctor-pers", "the constructor's pers_range", pr[0], pr[1], g["pers_range"][0], g["pers_range"][1], px, "constructor", {"after": g})
        q = (br[1] - br[0]) / px
        if q != round(q) or len(ops) >= 2:
            ctx.nontriv("inexact_or_non_integer_quotient")
        if not invariant(ctx, im, "after construction"):
            return None
        return canon(g)
    for n, op in enumerate(ops):
        last = n == len(ops) - 1
        where = "after op %d %r of %r" % (n + 1, op, ops)
        if last:
            apply_op(ctx, im, op, where)
        else:
            # prefix already checked when the shorter history was explored: just replay
            silent_apply(im, op)
    if len(ops) >= 2:
        ctx.nontriv("history_of_2plus_ops")
    if not invariant(ctx, im, "after %r" % (ops,), first_level=len(ops) <= 1):
        return None
    ctx.outcome(canon(geom(im)))
    return canon(geom(im))


def silent_apply(im, op):
    if op[0] == "fit_u":
        dg = [a * op[3] for a in data_arrays(op[1])]
        im.fit(dg[0] if len(dg) == 1 else dg, skew=op[2])
    elif op[0] in ("fit_buf", "fit_listbuf"):
        im.fit(buffered_arg(im, op)[0], skew=op[2])
    elif op[0] in ("fit", "fit_transform"):
        dg = data_arrays(op[1])
        getattr(im, op[0])(dg[0] if len(dg) == 1 else dg, skew=op[2])
    else:
        setattr(im, op[0], tuple(op[1]) if isinstance(op[1], list) else op[1])


def run_case(case, ctx):
    """Replay entry: check EVERY prefix of the recorded history."""
    for n in range(len(case["ops"]) + 1):
        run_history({"init": case["init"], "ops": case["ops"][:n]}, ctx)


class _M:
    DETERMINISTIC = True
    run_case = staticmethod(run_case)


DEEP_INITS = [{}, {"birth_range": [0, 1], "pers_range": [-0.5, 0.7], "pixel_size": 0.3}, {"birth_range": [0.1, 0.8], "pers_range": [0, 0.3], "pixel_size": 0.1}]
DEEP_OPS = [["birth_range", [0, 1.00001]], ["pers_range", [-0.5, 0.7]], ["pixel_size", 0.3], ["pixel_size", 1.0 / 3.0], ["pixel_size", 0.7],
            ["fit", "c", True], ["fit", "b", False], ["fit_transform", "a", True], ["birth_range", [0.1, 0.8]]]


UNITS = [1e-6, 1e-9, 1e-12, 1e5]


def unit_jobs():
    """Imagers in other physical units (pixel sizes around 1e-7 .. 1e-13 and 1e4): the same geometry laws, relative
    to the pixel.  Own small alphabet (ranges, pixel sizes and data in the same unit)."""
    jobs = []
    for u in UNITS:
        inits_u = [{"birth_range": [0.0, 3 * u], "pers_range": [0.0, u], "pixel_size": 0.1 * u},
                   {"birth_range": [-0.5 * u, 0.7 * u], "pers_range": [0.1 * u, 0.8 * u], "pixel_size": 0.3 * u}]
        ops_u = [["birth_range", [0.1 * u, 0.8 * u]], ["pers_range", [0.0, 1.00001 * u]], ["pixel_size", 0.7 * u], ["pixel_size", u / 3.0],
                 ["fit_u", "c", True, u], ["fit_u", "b", False, u]]
        jobs.append((inits_u, ops_u))
    return jobs


def run_shard(ctx):
    for jx, (inits_u, ops_u) in enumerate(unit_jobs()):
        if jx % ctx.nshards == ctx.shard:
            history.bfs(ctx, _M, inits_u, ops_u, 2 if ctx.tier == "quick" else 3, run_history)
    mine = [x for i, x in enumerate(inits()) if i % ctx.nshards == ctx.shard]
    depth = 2 if ctx.tier == "quick" else 3      # (41 operations: depth 4 exceeded the 30 min budget of the thorough tier)
    history.bfs(ctx, _M, mine, OPS, depth, run_history)
    # long histories: every sequence of 4 (thorough 5) operations over a reduced alphabet, without state
    # de-duplication (hidden state such as call counters cannot hide behind a repeated public state)
    deep = 4 if ctx.tier == "quick" else 5
    jobs = [(i, f) for i in range(len(DEEP_INITS)) for f in range(len(DEEP_OPS))]
    for jx, (i, f) in enumerate(jobs):
        if jx % ctx.nshards == ctx.shard:
            history.bfs(ctx, _M, [DEEP_INITS[i]], DEEP_OPS, deep - 1, run_history, prefix=[DEEP_OPS[f]], diff_continuation=False, dedup=False)
