"""C02 — Wasserstein distance = true min-sum matching cost (explorer A)."""
import numpy as np

from checks.common import AFF, INF, aff, farr, iarr, scale_of, call_warn, pair_cases, is_num, medium_diagram
from mc.enumerate import lattice_points, distinct_permutations
from oracles import matching as om

CALL_VARIANTS = True   # every whitelisted persim call is repeated with its arrays in another memory layout (mc/ctx.py)
PROPERTY = "C02"
RULE = (
    "all ordered pairs (S,T) of multisets of <= n lattice points {0<=b<=d<=G} (diagonal points, "
    "repeats, empty diagram included); per pair: 5 affine variants, all row permutations, "
    "list/int/float containers, appended infinite-death points; medium diagrams of 5..45 (thorough ..120) points, all ordered pairs against an independently built assignment problem. state = one (S,T) pair; transition "
    "= one execution of persim.wasserstein; non-trivial = an optimal matching mixes diagonal and "
    "cross pairings, or several optimal matchings exist."
    " No warning about non-finite deaths on all-finite input; a diagram against perturbed copies to 1e-11 of the value."
)
ASSUMPTIONS = ["oracle: brute force over all partial matchings with Euclidean / perpendicular costs"]
BOUNDS = {
    "quick": [{"n": 2, "G": 3}, {"n": 3, "G": 2}, {"n": 3, "alphabet": [[0, 1], [2, 3], [0, 3], [1, 2], [3, 3]]}],
    "thorough": [{"n": 3, "G": 3}, {"n": 4, "G": 2}],
}
RTOL = 1e-9


def bounds(tier):
    return {"spaces": BOUNDS[tier], "aff": AFF, "rtol": RTOL, "medium_family": MEDIUM[tier]}


MEDIUM = {"quick": {"n": [5, 6, 8, 10, 14, 20, 30, 45], "k": 2}, "thorough": {"n": [5, 6, 7, 8, 10, 14, 20, 30, 45, 70, 120], "k": 4}}


def medium_members(tier):
    m = MEDIUM[tier]
    return [(n, k, lat) for lat in (True, False) for n in m["n"] for k in range(m["k"])]


def run_medium(case, ctx):
    import persim

    a, b = case["a"], case["b"]
    S, T = medium_diagram(int(a[0]), int(a[1]), bool(a[2])), medium_diagram(int(b[0]), int(b[1]), bool(b[2]))
    ref = om.wasserstein_large_ref(S, T)
    ctx.state(("medium", a, b))
    if a != b:
        ctx.nontriv("medium_size_pair", key=("medium", a, b))
    v, _ = call_warn(ctx, persim.wasserstein, farr(S), farr(T))
    check_value(ctx, "value-medium", v, ref, 1e3, "medium diagrams %r vs %r" % (a, b), S, T)
    ctx.outcome(round(float(v), 6) if is_num(v) else repr(v))
    r2, _ = call_warn(ctx, persim.wasserstein, farr(S[::-1]), farr(T), matching=True)
    check_value(ctx, "value-medium", r2[0] if isinstance(r2, tuple) else r2, ref, 1e3, "medium diagrams, first reversed, matching=True", S, T)


def cases(tier):
    mem = medium_members(tier)
    for x in range(len(mem)):
        for y in range(len(mem)):
            if mem[x][2] == mem[y][2]:
                yield {"kind": "medium", "a": list(mem[x]), "b": list(mem[y])}
    for c in small_cases(tier):
        yield c


def small_cases(tier):
    for sp in BOUNDS[tier]:
        alphabet = [tuple(p) for p in sp["alphabet"]] if "alphabet" in sp else lattice_points(sp["G"])
        for c in pair_cases(alphabet, sp["n"]):
            yield c


def check_value(ctx, sig, v, ref, scale, what, S, T):
    ctx.valid()
    ok = is_num(v) and np.isfinite(v) and abs(float(v) - ref) <= RTOL * max(abs(ref), scale * 1e-3)
    if not ok:
        ctx.violation(sig, "wasserstein(%s) != min-sum matching cost" % what, observed=v, expected=ref,
                      extra={"variant": what, "S": S, "T": T})


def run_case(case, ctx):
    import persim

    if case.get("kind") == "medium":
        return run_medium(case, ctx)
    S, T = case["S"], case["T"]
    ref, info = om.wasserstein_ref(S, T)
    ctx.state((S, T))
    v, nw = call_warn(ctx, persim.wasserstein, farr(S), farr(T))
    ctx.outcome(round(float(v), 9) if is_num(v) else repr(v))
    if nw.claims_nonfinite():
        ctx.violation("spurious-inf-warning", "warning about non-finite death times on diagrams that have none",
                      observed=nw.messages[:2], expected="no such warning", extra={"S": S, "T": T})
    check_value(ctx, "value", v, ref, 1e3, "float arrays", S, T)
    if info["mixed"]:
        ctx.nontriv("optimum_mixes_diagonal_and_cross")
    if info["n_optimal"] > 1 and len(S) + len(T) > 1:
        ctx.nontriv("several_optimal_matchings")
    for a, c in AFF[1:]:
        S2, T2 = aff(S, a, c), aff(T, a, c)
        r2, _ = om.wasserstein_ref(S2, T2)
        v2, _ = call_warn(ctx, persim.wasserstein, farr(S2), farr(T2))
        check_value(ctx, "value-aff", v2, r2, scale_of(S2, T2), "affine a=%r c=%r" % (a, c), S2, T2)
    if len(S) <= 3 and len(T) <= 3:
        for Sp in distinct_permutations(tuple(map(tuple, S))):
            for Tp in distinct_permutations(tuple(map(tuple, T))):
                if list(map(list, Sp)) == S and list(map(list, Tp)) == T:
                    continue
                vp, _ = call_warn(ctx, persim.wasserstein, farr(Sp), farr(Tp))
                check_value(ctx, "value-perm", vp, ref, 1.0, "row order", Sp, Tp)
    vl, _ = call_warn(ctx, persim.wasserstein, [list(p) for p in S], [list(p) for p in T])
    check_value(ctx, "value-container", vl, ref, 1.0, "nested lists", S, T)
    if S and T:
        vr, _ = call_warn(ctx, persim.wasserstein, [np.array(p, dtype=float) for p in S], tuple(np.array(p, dtype=float) for p in T))
        check_value(ctx, "value-container", vr, ref, 1.0, "list / tuple of row arrays", S, T)
    vi, _ = call_warn(ctx, persim.wasserstein, iarr(S), iarr(T))
    check_value(ctx, "value-container", vi, ref, 1.0, "int arrays", S, T)
    # mixed representations: integer array against a fractional float array (and the other way round)
    Th = aff(T, 0.5, 0.25)
    rm, _ = om.wasserstein_ref(S, Th)
    for what, a1, a2, flip in (("int array vs fractional float array", iarr(S), farr(Th), False), ("fractional float array vs int array", farr(Th), iarr(S), True)):
        vm, _ = call_warn(ctx, persim.wasserstein, a1, a2)
        check_value(ctx, "value-mixed-dtype", vm, rm, 1e3, what, Th if flip else S, S if flip else Th)
    # a float32 array (lattice values, exact in single precision) against a float64 array whose values are
    # NOT representable in single precision, both orders: the wider argument must not be rounded to the other's dtype
    Tq = [[x / 3.0 + 0.1 + 1e-9 for x in p_] for p_ in T]
    rq, _ = om.wasserstein_ref(S, Tq)
    S32 = np.array(S, dtype=np.float32).reshape(-1, 2)
    for what, a1, a2, X_, Y_ in (("float32 array vs float64 array", S32, farr(Tq), S, Tq), ("float64 array vs float32 array", farr(Tq), S32, Tq, S)):
        vq, _ = call_warn(ctx, persim.wasserstein, a1, a2)
        check_value(ctx, "value-mixed-dtype", vq, rq, 1e3, what, X_, Y_)
    # integer-typed arrays with large values / narrow or unsigned dtypes
    for dt, kk in ((np.int64, 4 * 10 ** 9), (np.int32, 50000), (np.uint8, 60), (np.uint8, 85), (np.int16, 10900), (np.int8, 42)):
        if max([x for p_ in S + T for x in p_] or [0]) * kk > np.iinfo(dt).max:
            continue
        Si = (np.array(S, dtype=np.int64).reshape(-1, 2) * kk).astype(dt)
        Ti = (np.array(T, dtype=np.int64).reshape(-1, 2) * kk).astype(dt)
        ri, _ = om.wasserstein_ref(Si.astype(float).tolist(), Ti.astype(float).tolist())
        vi, _ = call_warn(ctx, persim.wasserstein, Si, Ti)
        check_value(ctx, "value-int-dtype", vi, ri, 1e3 * float(kk), "%s arrays x %d" % (np.dtype(dt), kk), Si.tolist(), Ti.tolist())
    # a diagram against a SLIGHTLY perturbed copy of itself (long bars, tiny moves): the value is a sum of tiny
    # costs and must be accurate relative to ITSELF (a reduction that subtracts the diagonal costs first, or
    # an equality test with a tolerance, is off by 1e-8..1e-4 here); checked on both return paths
    if S == T and S:
        big = [[10.0 * p_[0], 10.0 * p_[0] + 30.0 + 10.0 * (p_[1] - p_[0])] for p_ in S]        # persistences >= 30
        for what, Tp in (("relative 2^-25", [[x * (1.0 + 2.0 ** -25) for x in p_] for p_ in big]),
                         ("absolute 1e-6 pattern", [[p_[0] + 1e-6 * (i + 1), p_[1] - 2e-6] for i, p_ in enumerate(big)])):
            rp, _ = om.wasserstein_ref(big, Tp)
            # relative to the VALUE only: differences of nearby coordinates are exact in floating point, so every
            # tiny pairing cost (and their sum) is known to a few ulps of itself
            tight = 1e-11 * abs(rp)
            for kw in ({}, {"matching": True}):
                vp, _ = call_warn(ctx, persim.wasserstein, farr(big), farr(Tp), **kw)
                vp = vp[0] if isinstance(vp, tuple) else vp
                ctx.valid()
                if not (is_num(vp) and abs(float(vp) - rp) <= tight):
                    ctx.violation("value-perturbed-copy", "wasserstein of a diagram and a slightly perturbed copy (%s, %s) is not the sum of the tiny pairing costs" % (what, kw or "plain"),
                                  observed=vp, expected=rp, extra={"S": big, "T": Tp, "tolerance": tight})
    # far from the origin against the empty diagram: every point goes to the diagonal, at a cost that depends on
    # its persistence only (death - birth is exact in floating point there), so the value is known to round-off
    # OF THE PERSISTENCES, not of the coordinates
    if S and not T:
        import math

        for c in (134217728.0, 1e8 + 0.5, -3e9):
            Sf = [[p_[0] + c, p_[1] + c] for p_ in S]
            want = math.fsum((p_[1] - p_[0]) for p_ in Sf) / math.sqrt(2.0)
            for a1, a2 in ((farr(Sf), np.zeros((0, 2))), (np.zeros((0, 2)), farr(Sf))):
                vf, _ = call_warn(ctx, persim.wasserstein, a1, a2)
                ctx.valid()
                if not (is_num(vf) and abs(float(vf) - want) <= 1e-12 * max(want, 1e-300)):
                    ctx.violation("value-far-diagonal-cost", "wasserstein of a diagram translated by %r against the empty diagram is not total persistence / sqrt(2)" % c,
                                  observed=vf, expected=want, extra={"S": Sf})
    # Mx3 input whose extra column is CONSTANT (the documented behaviour counts extra columns in the
    # point-to-point cost, so only a constant annotation column leaves every pairing cost unchanged)
    if S and T:
        S3c, T3c = np.hstack([farr(S), np.full((len(S), 1), 4.5)]), np.hstack([farr(T), np.full((len(T), 1), 4.5)])
        vx, _ = call_warn(ctx, persim.wasserstein, S3c, T3c)
        check_value(ctx, "value-extra-columns", vx, ref, 1.0, "Mx3 arrays with a constant annotation column", S, T)
    if bool(S) != bool(T):
        # an Mx3 diagram against the empty diagram (given as a (0,3) array, a (0,2) array or an empty list)
        X3 = np.hstack([farr(S or T), np.full((len(S or T), 1), 4.5)])
        for what, E in (("(0,3) array", np.zeros((0, 3))), ("(0,2) array", np.zeros((0, 2))), ("empty list", [])):
            a1, a2 = (X3, E) if S else (E, X3)
            vx, _ = call_warn(ctx, persim.wasserstein, a1, a2)
            check_value(ctx, "value-extra-columns", vx, ref, 1.0, "Mx3 array against the empty diagram as %s" % what, S, T)
    if not S or not T:
        ve, _ = call_warn(ctx, persim.wasserstein, np.array(S, dtype=float), np.array(T, dtype=float))
        check_value(ctx, "value-container", ve, ref, 1.0, "np.array([]) for the empty diagram", S, T)
    for addS, addT in (([[0.0, INF]], []), ([], [[1.0, INF], [5.0, INF]]), ([[2.0, INF]], [[0.0, INF]])):
        S3 = addS + [list(map(float, p)) for p in S]
        T3 = [list(map(float, p)) for p in T] + addT
        if len(S) >= 2 and addS:
            S3 = S3[1:2] + S3[0:1] + S3[2:]
        v3, nw3 = call_warn(ctx, persim.wasserstein, farr(S3), farr(T3))
        check_value(ctx, "value-inf", v3, ref, 1.0, "infinite points appended", S3, T3)
        ctx.valid()
        if nw3 < 1:
            ctx.violation("inf-no-warning", "points with infinite death dropped without a warning",
                          observed=nw3, expected=">=1 warning", extra={"S": S3, "T": T3})
