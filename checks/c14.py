"""C14 — heat-kernel distance is a real pseudo-metric, stable w.r.t. Wasserstein (explorer A)."""
import math

import numpy as np

from checks.common import aff, farr, call_warn, is_num, medium_diagram
from mc.enumerate import lattice_points, multisets_upto, distinct_permutations
from oracles import simple as OS

CALL_VARIANTS = True   # every whitelisted persim call is repeated with its arrays in another memory layout (mc/ctx.py)
PROPERTY = "C14"
SIGMAS = [0.1, 0.4, 1.0, 10.0]
EPS = 2.220446049250313e-16
RULE = (
    "all ordered pairs (F,G) of multisets of <= n lattice points (diagonal points included) x sigma in "
    "{0.1,0.4,1,10}; per pair: ALL row permutations of both diagrams, near-identical copies (one "
    "coordinate moved by 1e-9 / 1e-13), added diagonal points, diagonal shifts (-3.7, 1e3 and exact shifts by 2^17, 2^20, -2^24), scalings; ALL triples "
    "(triangle inequality) from the complete distance table per sigma; Wasserstein stability bound. "
    "state = (F,G,sigma); transition = one persim.heat call; non-trivial = F and G are the same multiset "
    "in a different row order, or differ by < 1e-8 (cancellation regime), or both non-empty and different."
    " (n,3) arrays with an annotation column."
)
ASSUMPTIONS = [
    "values are compared on squares with a round-off allowance of 64 eps x the sum of |kernel terms| (the square root amplifies round-off near 0)",
]


def bounds(tier):
    return {"G": 3, "n": 2 if tier == "quick" else 3, "sigmas": SIGMAS}


def space(tier):
    n = 2 if tier == "quick" else 3
    return [[list(map(float, p)) for p in m] for m in multisets_upto(lattice_points(3), n)]


def cases(tier):
    sp = space(tier)
    for i in range(len(sp)):
        yield {"kind": "row", "i": i}
    for s in SIGMAS:
        yield {"kind": "triples", "sigma": s}
    yield {"kind": "noise"}
    yield {"kind": "sigma-types"}
    for n in ((6, 9, 14) if tier == "quick" else (6, 7, 9, 14, 25, 40)):
        for k in range(3):
            yield {"kind": "medium", "n": n, "k": k}


def h(ctx, F, G, sigma):
    import persim

    return ctx.call(persim.heat, farr(F), farr(G), sigma=sigma)


def check_val(ctx, sig, v, F, G, sigma, what):
    """v must be a finite real >= 0 whose square is the kernel expression up to round-off."""
    d2, mass = OS.heat_sq(F, G, sigma)
    tol = 64 * EPS * mass + 1e-300
    ctx.valid()
    if isinstance(v, complex) or not is_num(v) or not np.isfinite(v) or v < 0:
        ctx.violation(sig + "-not-real", "heat distance is not a finite non-negative real number (%s)" % what,
                      observed=repr(v), expected=math.sqrt(max(d2, 0.0)), extra={"F": F, "G": G, "sigma": sigma})
        return None
    v = float(v)
    if abs(v * v - max(d2, 0.0)) > tol:
        ctx.violation(sig, "heat distance is not sqrt(k(F,F)+k(G,G)-2k(F,G)) (%s)" % what,
                      observed=v, expected=math.sqrt(max(d2, 0.0)), extra={"F": F, "G": G, "sigma": sigma, "tol_on_squares": tol})
    return v, tol


def run_case(case, ctx):
    import persim

    if case["kind"] == "triples":
        return triples(case, ctx)
    if case["kind"] == "sigma-types":
        # the kernel width given as a NumPy scalar of a narrow type (8 * sigma must not be formed in int8 ...)
        F, G = [[0.0, 2.0], [1.0, 3.0]], [[0.5, 2.5], [3.0, 4.0], [0.0, 1.0]]
        for sg in (np.int8(16), np.int8(100), np.uint8(40), np.int16(5000), np.float32(0.5), np.float16(2.0), 3, np.int64(7)):
            ctx.state(("sigma-type", repr(sg)))
            check_val(ctx, "value-sigma-type", ctx.call(persim.heat, farr(F), farr(G), sigma=sg), F, G, float(sg), "sigma given as %r" % (sg,))
        ctx.nontriv("sigma_as_numpy_scalar")
        return
    if case["kind"] == "noise":
        # points of tiny persistence ("noise" next to the diagonal) and very wide kernels: every pair term is a
        # small difference of two nearly equal exponentials - the regime where series shortcuts go wrong
        tiny = [0.0005, 0.004, 0.02, 0.039999, 0.040001, 0.3]
        dg = [[[0.0, p]] for p in tiny] + [[[0.0, 0.01], [1.0, 1.03]], [[0.5, 0.52], [2.0, 2.001], [0.1, 0.1004]], [[0.0, 1.0], [0.25, 0.2501]], []]
        for F in dg:
            for G in dg:
                for sigma in (0.4, 0.05, 3.0, 250.0, 4000.0):
                    ctx.state(("noise", F, G, sigma))
                    check_val(ctx, "value-noise", h(ctx, F, G, sigma), F, G, sigma, "tiny persistences / wide kernel")
        ctx.nontriv("tiny_persistence_or_wide_kernel")
        return
    if case["kind"] == "medium":
        F = medium_diagram(case["n"], case["k"], False)
        for n2, k2, lat in ((case["n"], case["k"] + 1, False), (5, case["k"], True), (case["n"] + 3, 0, False)):
            G = medium_diagram(n2, k2, lat)
            for sigma in SIGMAS:
                ctx.state(("medium", case["n"], case["k"], n2, k2, sigma))
                check_val(ctx, "value-medium", h(ctx, F, G, sigma), F, G, sigma, "medium diagrams")
                check_val(ctx, "value-medium", h(ctx, G[::-1], F, sigma), G[::-1], F, sigma, "medium diagrams swapped")
        r = check_val(ctx, "value-medium", h(ctx, F, F[2:] + F[:2], 0.4), F, F[2:] + F[:2], 0.4, "medium diagram vs its rotation")
        Fd = F[:3] + F + F[1:2]            # exactly repeated points
        Gd = medium_diagram(case["n"], case["k"] + 2, True)
        for sigma in (0.4, 10.0):
            check_val(ctx, "value-medium", h(ctx, Fd, Gd, sigma), Fd, Gd, sigma, "medium diagram with repeated points")
            check_val(ctx, "value-medium", h(ctx, Fd, F, sigma), Fd, F, sigma, "medium diagram with repeated points vs without")
        ctx.nontriv("medium_diagram", key=("medium", case["n"], case["k"]))
        return
    sp = space(ctx.tier)
    F = sp[case["i"]]
    for G in sp:
        for sigma in SIGMAS:
            ctx.state((F, G, sigma))
            r = check_val(ctx, "value", h(ctx, F, G, sigma), F, G, sigma, "base")
            if r is None:
                continue
            v, tol = r
            ctx.outcome(round(v, 10))
            if F and G and F != G:
                ctx.nontriv("different_nonempty_pair", key=(F, G))
            # symmetry (on squares)
            r2 = check_val(ctx, "value", h(ctx, G, F, sigma), G, F, sigma, "swapped")
            if r2 is not None and abs(r2[0] ** 2 - v ** 2) > 2 * tol:
                ctx.violation("symmetry", "heat(F,G) != heat(G,F)", observed=[v, r2[0]], extra={"F": F, "G": G, "sigma": sigma})
            # stability: d <= W1 / (4 sigma sqrt(pi))
            if sigma in (0.4, 10.0):
                w, _ = call_warn(ctx, persim.wasserstein, farr(F), farr(G))
                ctx.valid()
                if v > w / (4.0 * sigma * math.sqrt(math.pi)) + math.sqrt(tol):
                    ctx.violation("wasserstein-bound", "heat distance exceeds W1/(4 sigma sqrt(pi))",
                                  observed=v, expected="<= %r" % (w / (4.0 * sigma * math.sqrt(math.pi))), extra={"F": F, "G": G, "sigma": sigma})
        # variants at the default sigma and one small sigma
        for sigma in (0.4, 0.1):
            base = h(ctx, F, G, sigma)
            if not (is_num(base) and np.isfinite(base)):
                continue
            d2, mass = OS.heat_sq(F, G, sigma)
            tol = 64 * EPS * mass + 1e-300
            # every row order of both diagrams
            for Fp in distinct_permutations(tuple(map(tuple, F))):
                for Gp in distinct_permutations(tuple(map(tuple, G))):
                    Fp_, Gp_ = [list(p) for p in Fp], [list(p) for p in Gp]
                    if Fp_ == F and Gp_ == G:
                        continue
                    check_val(ctx, "value-perm", h(ctx, Fp_, Gp_, sigma), Fp_, Gp_, sigma, "row order")
                    if sorted(Fp_) == sorted(Gp_):
                        ctx.nontriv("same_multiset_other_row_order", key=(Fp_, Gp_))
            # points on the diagonal are ignored
            F2 = [[1.5, 1.5]] + F
            G2 = G + [[0.0, 0.0], [7.0, 7.0]]
            r = check_val(ctx, "value-diag", h(ctx, F2, G2, sigma), F2, G2, sigma, "diagonal points added")
            if r is not None and abs(r[0] ** 2 - float(base) ** 2) > 4 * tol:
                ctx.violation("diagonal-points", "points on the diagonal change the heat distance", observed=r[0], expected=float(base),
                              extra={"F": F2, "G": G2, "sigma": sigma})
            # translation along the diagonal (also into negative coordinates)
            for c in (-3.7, 1000.0, 131072.0, 1048576.0, -16777216.0):
                F3, G3 = aff(F, 1.0, c), aff(G, 1.0, c)
                r = check_val(ctx, "value-shift", h(ctx, F3, G3, sigma), F3, G3, sigma, "shift %r" % c)
                # shifts by a power of two keep every coordinate difference exact: no extra allowance
                slack = 0.0 if float(c).is_integer() else 1e-12 * mass * (1 + abs(c)) * 8
                if r is not None and abs(r[0] ** 2 - float(base) ** 2) > 4 * tol + slack:
                    ctx.violation("shift-invariance", "translation along the diagonal changes the heat distance",
                                  observed=r[0], expected=float(base), extra={"F": F3, "G": G3, "sigma": sigma})
            # non-lattice coordinates far from the origin (integer coordinates would make even a
            # cancelling |p|^2+|q|^2-2pq formulation exact): value against the oracle on the same floats
            for c in (131072.0, 1048576.0):
                F5, G5 = aff(F, 1.0 / 3.0, c), aff(G, 1.0 / 3.0, c)
                check_val(ctx, "value-shift", h(ctx, F5, G5, sigma), F5, G5, sigma, "x/3 + %r" % c)
            # mixed representations: integer array / nested list of ints against a fractional float array
            Gh = aff(G, 0.5, 0.25)
            import persim as _p

            for what, a1, a2 in (("int array vs fractional float array", np.array(F, dtype=int).reshape(-1, 2), farr(Gh)),
                                 ("fractional float array vs int array", farr(Gh), np.array(F, dtype=int).reshape(-1, 2)),
                                 ("nested int list vs float array", [[int(x) for x in p] for p in F], farr(Gh))):
                if len(F) == 0 and "list" in what:
                    continue
                first_is_F = "vs fractional" in what or "list" in what
                check_val(ctx, "value-mixed-dtype", ctx.call(_p.heat, a1, a2, sigma=sigma), F if first_is_F else Gh, Gh if first_is_F else F, sigma, what)
            # float32 array (lattice values, exact in single precision) against a float64 array with values that
            # single precision cannot hold, both orders
            Gq = [[x / 3.0 + 0.1 + 1e-9 for x in p] for p in G]
            F32 = np.array(F, dtype=np.float32).reshape(-1, 2)
            check_val(ctx, "value-mixed-dtype", ctx.call(_p.heat, F32, farr(Gq), sigma=sigma), F, Gq, sigma, "float32 array vs float64 array")
            check_val(ctx, "value-mixed-dtype", ctx.call(_p.heat, farr(Gq), F32, sigma=sigma), Gq, F, sigma, "float64 array vs float32 array")
            # a third (annotation) column is not a coordinate: the kernel reads columns 0 and 1 only
            if len(F) and len(G):
                F3 = np.column_stack([farr(F), 7.0 + np.arange(len(F))])
                G3 = np.column_stack([farr(G), -3.0 - 2.0 * np.arange(len(G))])
                check_val(ctx, "value-extra-column", ctx.call(_p.heat, F3, G3, sigma=sigma), F, G, sigma, "(n,3) arrays")
            # integer-typed arrays: large values (squares beyond the integer range) and unsigned dtypes
            # (differences wrap around) must give the value of the equal float diagrams
            for dt, kk in ((np.int64, 4 * 10 ** 9), (np.int32, 50000), (np.int16, 200), (np.uint8, 60), (np.uint16, 1), (np.uint8, 85), (np.int16, 10900), (np.int8, 42)):
                Fi = (np.array(F, dtype=np.int64).reshape(-1, 2) * kk).astype(dt)
                Gi = (np.array(G, dtype=np.int64).reshape(-1, 2) * kk).astype(dt)
                Ff, Gf = Fi.astype(float).tolist(), Gi.astype(float).tolist()
                sg = sigma * float(kk) ** 2
                check_val(ctx, "value-int-dtype", ctx.call(_p.heat, Fi, Gi, sigma=sg), Ff, Gf, sg, "%s arrays x %d" % (np.dtype(dt), kk))
            # scaling points by a and sigma by a^2 scales the distance by 1/a
            for a in (0.1, 1e3):
                F4, G4 = aff(F, a, 0.0), aff(G, a, 0.0)
                check_val(ctx, "value-scale", h(ctx, F4, G4, sigma * a * a), F4, G4, sigma * a * a, "scale %r" % a)
        # extreme bandwidths on every pair
        for sigma in (1e-4, 1e-2, 250.0, 1e6):
            check_val(ctx, "value-sigma", h(ctx, F, G, sigma), F, G, sigma, "sigma=%g" % sigma)
        # nearly identical diagrams (cancellation regime): G = F with one coordinate nudged
        if F is not None and F == G and F:
            for dx in (1e-9, 1e-13):
                Gn = [list(p) for p in F]
                Gn[-1][1] += dx
                for sigma in (0.4, 10.0):
                    ctx.nontriv("nearly_identical", key=(F, dx, sigma))
                    check_val(ctx, "value-near", h(ctx, F, Gn, sigma), F, Gn, sigma, "nudged by %g" % dx)
                    check_val(ctx, "value-near", h(ctx, Gn[::-1], F, sigma), Gn[::-1], F, sigma, "nudged by %g, reversed" % dx)


def triples(case, ctx):
    sigma = case["sigma"]
    sp = space("quick")  # the triple table is complete over all multisets of <= 2 points in both tiers
    N = len(sp)
    D = np.zeros((N, N))
    tolmax = 0.0
    for i in range(N):
        for j in range(N):
            v = h(ctx, sp[i], sp[j], sigma)
            D[i, j] = float(v) if is_num(v) else np.nan
            tolmax = max(tolmax, 64 * EPS * OS.heat_sq(sp[i], sp[j], sigma)[1])
    slack = 3 * math.sqrt(tolmax)
    ctx.state(("triple-table", sigma))
    bad = 0
    for i in range(N):
        viol = np.argwhere(D[i][None, :] > D[i][:, None] + D + slack)
        for j, k in viol[:3]:
            bad += 1
            ctx.violation("triangle", "heat(F,H) > heat(F,G) + heat(G,H)", observed=[D[i, k], D[i, j], D[j, k]],
                          extra={"F": sp[i], "G": sp[j], "H": sp[k], "sigma": sigma})
    ctx.valid(N ** 3)
    ctx.count("triples_checked", N ** 3)
    ctx.outcome(("tri", sigma, bad))
