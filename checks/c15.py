"""C15 — sliced Wasserstein is the averaged 1-D transport cost and a pseudo-metric (explorer A)."""
import math

import numpy as np

from checks.common import aff, farr, call_warn, is_num, medium_diagram
from mc.barrier import allgather
from mc.enumerate import lattice_points, multisets_upto
from oracles import simple as OS

CALL_VARIANTS = True   # every whitelisted persim call is repeated with its arrays in another memory layout (mc/ctx.py)
PROPERTY = "C15"
MS = [1, 2, 3, 10, 50]
RULE = (
    "all ordered pairs of multisets of <= 2 points of the signed lattice {-2..2}^2, b<=d (either sign, "
    "diagonal points, the empty (0,2) diagram) x M in {1,2,3,10,50} (and EVERY M in 1..128 / 1..512 on a cover of 55 pairs; every M in 1..160 / 1..700 plus large M up to 1024 / 5000 on 5 pairs of 9..250-point diagrams); per pair: value vs the defining "
    "formula in float64, symmetry, reordered rows, added diagonal points, shifts along the diagonal into "
    "negative and large coordinates, scalings, bound 2*W1; ALL triples per M from the complete table "
    "(triangle inequality). state = (P1,P2,M); transition = one persim.sliced_wasserstein call; "
    "non-trivial = a diagram has a point with b+d < 0 (the sign the diagonal projection must keep), "
    "or both diagrams are non-empty and different."
)
ASSUMPTIONS = [
    "tolerance 256 ulp x coordinate scale x number of points (double precision throughout)",
]
RT = 256 * 2.220446049250313e-16      # a few hundred ulps of the largest coordinate, per point


def bounds(tier):
    return {"lattice": "{-2..2}^2 with b<=d", "n": 2, "M": MS, "rel_tol": RT}


def space():
    return [[list(map(float, p)) for p in m] for m in multisets_upto(lattice_points(2, lo=-2), 2)]


_SHARED = {}


def shared(D):
    """One array object per diagram and case: the SAME objects are passed to successive calls (different
    M, different partners), so a call that modifies its arguments corrupts a later one."""
    k = id(D)
    if k not in _SHARED:
        a = farr(D)
        _SHARED[k] = (a, a.tobytes(), D)
    return _SHARED[k][0]


def shared_unchanged(ctx):
    for a, b, D in _SHARED.values():
        ctx.valid()
        if a.tobytes() != b:
            ctx.violation("argument-modified", "sliced_wasserstein modified an argument array", observed=a.tolist(), expected=D)
    _SHARED.clear()


def sw(ctx, A, B, M):
    import persim

    return ctx.call(persim.sliced_wasserstein, shared(A), shared(B), M=M)


def tol_of(A, B):
    sc = max([1.0] + [abs(x) for p in A + B for x in p])
    return RT * sc * max(1, len(A) + len(B))


def check_val(ctx, sig, v, A, B, M, what):
    ref = OS.sliced_wasserstein(A, B, M)
    ctx.valid()
    if not (is_num(v) and np.isfinite(v) and abs(float(v) - ref) <= tol_of(A, B)):
        ctx.violation(sig, "sliced_wasserstein is not the averaged 1-D transport cost (%s)" % what,
                      observed=v if is_num(v) else repr(v), expected=ref, extra={"P1": A, "P2": B, "M": M})
        return None
    return float(v)


def pair(ctx, A, B):
    try:
        return _pair(ctx, A, B)
    finally:
        shared_unchanged(ctx)


def _pair(ctx, A, B):
    import persim

    out = {}
    neg = any(p[0] + p[1] < 0 for p in A + B)
    for M in MS:
        ctx.state((A, B, M))
        v = check_val(ctx, "value", sw(ctx, A, B, M), A, B, M, "base")
        out[M] = v
        if v is None:
            continue
        ctx.outcome(round(v, 6))
        if neg:
            ctx.nontriv("point_with_negative_b_plus_d", key=(A, B))
        elif A and B and A != B:
            ctx.nontriv("different_nonempty_pair", key=(A, B))
        t = tol_of(A, B)
        if A == B and abs(v) > 1e-12:
            ctx.violation("self-distance", "distance of a diagram to itself is not 0", observed=v, extra={"P": A, "M": M})
    # variants at M = 3 and 10
    for M in (3, 10):
        v = out.get(M)
        if v is None:
            continue
        t = tol_of(A, B)
        # rows reordered: exactly the same multisets of projections
        vr = check_val(ctx, "value-perm", sw(ctx, A[::-1], B[::-1], M), A[::-1], B[::-1], M, "rows reversed")
        ctx.valid()
        if vr is not None and abs(vr - v) > 1e-12 * max(1.0, v):
            ctx.violation("row-order", "row order changes the value", observed=vr, expected=v, extra={"P1": A, "P2": B, "M": M})
        if sorted(A) == sorted(B) and vr is not None and abs(sw(ctx, A, B[::-1], M)) > 1e-12:
            ctx.violation("self-distance", "distance between reorderings of one diagram is not 0", extra={"P": A, "M": M})
        # points on the diagonal are ignored
        A2, B2 = [[1.0, 1.0]] + A, B + [[-2.0, -2.0], [0.5, 0.5]]
        vd = check_val(ctx, "value-diag", sw(ctx, A2, B2, M), A2, B2, M, "diagonal points added")
        ctx.valid()
        if vd is not None and abs(vd - v) > 2 * tol_of(A2, B2):
            ctx.violation("diagonal-points", "points on the diagonal change the value", observed=vd, expected=v, extra={"P1": A2, "P2": B2, "M": M})
        # translation along the diagonal, also into negative coordinates
        for c in (-5.0, 3.25, 100.0, 1048576.0, -4194304.0 + 1.0 / 3.0):
            A3, B3 = aff(A, 1.0, c), aff(B, 1.0, c)
            vs = check_val(ctx, "value-shift", sw(ctx, A3, B3, M), A3, B3, M, "shift %r" % c)
            ctx.valid()
            if vs is not None and abs(vs - v) > 2 * tol_of(A3, B3):
                ctx.violation("shift-invariance", "translation along the diagonal changes the value",
                              observed=vs, expected=v, extra={"P1": A3, "P2": B3, "M": M, "shift": c})
        # linear scaling
        for a in (0.1, 1e3):
            A4, B4 = aff(A, a, 0.0), aff(B, a, 0.0)
            vs = check_val(ctx, "value-scale", sw(ctx, A4, B4, M), A4, B4, M, "scale %r" % a)
            ctx.valid()
            if vs is not None and abs(vs - a * v) > 2 * tol_of(A4, B4):
                ctx.violation("scaling", "value does not scale linearly", observed=vs, expected=a * v, extra={"P1": A4, "P2": B4, "M": M})
        # mixed representations: integer array against a fractional float array
        Bh = aff(B, 0.5, 0.25)
        for what, a1, a2, X, Y in (("int vs fractional float", np.array(A, dtype=int).reshape(-1, 2), farr(Bh), A, Bh),
                                   ("fractional float vs int", farr(Bh), np.array(A, dtype=int).reshape(-1, 2), Bh, A)):
            check_val(ctx, "value-mixed-dtype", ctx.call(persim.sliced_wasserstein, a1, a2, M=M), X, Y, M, what)
        Bq = [[x / 3.0 + 0.1 + 1e-9 for x in p] for p in B]
        A32 = np.array(A, dtype=np.float32).reshape(-1, 2)
        check_val(ctx, "value-mixed-dtype", ctx.call(persim.sliced_wasserstein, A32, farr(Bq), M=M), A, Bq, M, "float32 array vs float64 array")
        check_val(ctx, "value-mixed-dtype", ctx.call(persim.sliced_wasserstein, farr(Bq), A32, M=M), Bq, A, M, "float64 array vs float32 array")
        # integer-typed arrays with large values / unsigned dtypes (only for non-negative diagrams)
        if all(x >= 0 for p in A + B for x in p):
            for dt, kk in ((np.int64, 4 * 10 ** 9), (np.int32, 50000), (np.uint8, 60), (np.uint8, 127), (np.int16, 16000), (np.int8, 63), (np.int32, 10 ** 9)):   # birth + death beyond the dtype's range
                Ai = (np.array(A, dtype=np.int64).reshape(-1, 2) * kk).astype(dt)
                Bi = (np.array(B, dtype=np.int64).reshape(-1, 2) * kk).astype(dt)
                check_val(ctx, "value-int-dtype", ctx.call(persim.sliced_wasserstein, Ai, Bi, M=M), Ai.astype(float).tolist(), Bi.astype(float).tolist(), M, "%s arrays x %d" % (np.dtype(dt), kk))
        # never exceeds twice the 1-Wasserstein distance
        w, _ = call_warn(ctx, persim.wasserstein, farr(A), farr(B))
        ctx.valid()
        if v > 2.0 * w + t:
            ctx.violation("wasserstein-bound", "sliced Wasserstein exceeds 2*W1", observed=v, expected="<= %r" % (2 * w), extra={"P1": A, "P2": B, "M": M})
    return out


def medium_pair(ctx, A, B):
    import persim

    # integer-valued copies (coordinates x2 are integers for the lattice-rounded members) as int arrays
    if all(float(2 * x).is_integer() for p in A + B for x in p):
        A2, B2 = [[2 * p[0], 2 * p[1]] for p in A], [[2 * p[0], 2 * p[1]] for p in B]
        ia, ib = np.array(A2, dtype=int).reshape(-1, 2), np.array(B2, dtype=int).reshape(-1, 2)
        for M in (3, 50):
            check_val(ctx, "value-medium", ctx.call(persim.sliced_wasserstein, ia, ib, M=M), A2, B2, M, "medium integer arrays, M=%d" % M)
            check_val(ctx, "value-medium", ctx.call(persim.sliced_wasserstein, ia, farr(B2), M=M), A2, B2, M, "medium int vs float arrays, M=%d" % M)
    for M in (1, 7, 50):
        ctx.state(("medium", A, B, M))
        check_val(ctx, "value-medium", sw(ctx, A, B, M), A, B, M, "medium diagrams, M=%d" % M)
    ctx.nontriv("medium_pair", key=("medium", A, B))
    shared_unchanged(ctx)


def msweep(ctx, A, B, m_hi):
    for M in range(1, m_hi + 1):
        ctx.state((A, B, M))
        check_val(ctx, "value-M", sw(ctx, A, B, M), A, B, M, "M=%d" % M)
    ctx.nontriv("all_M_up_to_%d" % m_hi, key=(A, B))
    shared_unchanged(ctx)


MED_SIZES = [(5, 4), (20, 20), (40, 40), (60, 50), (150, 100)]


def m_values(tier):
    """Direction counts for the medium/large sweep: EVERY M up to 160 (thorough 700) and a list of large ones
    (a blocked / chunked evaluation of the directions goes wrong only for particular (size, M))."""
    if tier == "quick":
        return list(range(1, 161)) + [200, 256, 257, 300, 500, 512, 1000, 1024]
    return list(range(1, 701)) + [1000, 1024, 2048, 4096, 5000]


def msweep_medium(ctx, n1, n2, tier, part=None):
    import persim

    A = [[p[0] - 6.0, p[1] - 6.0] for p in medium_diagram(n1, 0, False)]
    B = [[p[0] - 5.5, p[1] - 5.5] for p in medium_diagram(n2, 1, False)]
    a, b = farr(A), farr(B)
    sa, sb = a.tobytes(), b.tobytes()
    t = tol_of(A, B)
    ms = m_values(tier)
    if part is not None:
        ms = ms[part[0]::part[1]]          # (the sweep is split into interleaved parts, one case each)
    for M in ms:
        ctx.state(("medium-M", n1, n2, M))
        v = ctx.call(persim.sliced_wasserstein, a, b, M=M)
        ref = OS.sliced_wasserstein_np(A, B, M)
        ctx.valid()
        if not (is_num(v) and np.isfinite(v) and abs(float(v) - ref) <= t):
            ctx.violation("value-medium-M", "sliced_wasserstein is not the average over the M directions (%d vs %d points, M=%d)" % (n1, n2, M),
                          observed=v if is_num(v) else repr(v), expected=ref, extra={"n1": n1, "n2": n2, "M": M})
    ctx.valid()
    if a.tobytes() != sa or b.tobytes() != sb:
        ctx.violation("argument-modified", "sliced_wasserstein modified an argument array")
    ctx.nontriv("medium_pair_all_M", key=("medium-M", n1, n2))


def run_case(case, ctx):
    """Replay entry: one pair, or one triple."""
    if case["kind"] == "medium-M":
        return msweep_medium(ctx, case["n1"], case["n2"], case.get("tier", ctx.tier), case.get("part"))
    if case["kind"] == "medium":
        return medium_pair(ctx, case["A"], case["B"])
    if case["kind"] == "msweep":
        return msweep(ctx, case["A"], case["B"], case["m_hi"])
    if case["kind"] == "pair":
        o = pair(ctx, case["A"], case["B"])
        o2 = {M: sw(ctx, case["B"], case["A"], M) for M in MS}
        for M in MS:
            if o[M] is not None and abs(o2[M] - o[M]) > 1e-12 * max(1.0, o[M]):
                ctx.violation("symmetry", "SW(A,B) != SW(B,A)", observed=[o[M], o2[M]], extra={"M": M})
    else:
        A, B, C, M = case["A"], case["B"], case["C"], case["M"]
        ab, bc, ac = sw(ctx, A, B, M), sw(ctx, B, C, M), sw(ctx, A, C, M)
        if ac > ab + bc + 3 * tol_of(A + B, C):
            ctx.violation("triangle", "SW(A,C) > SW(A,B) + SW(B,C)", observed=[ac, ab, bc])


class _M:
    DETERMINISTIC = True
    run_case = staticmethod(run_case)


def run_shard(ctx):
    sp = space()
    N = len(sp)
    table = {}
    idx = 0
    for i in range(N):
        for j in range(N):
            idx += 1
            if idx % ctx.nshards != ctx.shard:
                continue
            res = [None]
            case = {"kind": "pair", "A": sp[i], "B": sp[j]}
            ctx.run_case(_M, case, fn=lambda c, cx: res.__setitem__(0, pair(cx, sp[i], sp[j])))
            table[(i, j)] = res[0]
    # every M in a whole range (the direction grid is built by float accumulation: particular M can
    # gain or lose a direction), on a cover of pairs
    cover = [sp[i] for i in (1, 7, 20, 33, 47, 60, 75, 90, 104, 120, 135)]
    m_hi = 128 if ctx.tier == "quick" else 512
    jobs = [(a, b) for a in range(len(cover)) for b in range(len(cover)) if a < b]
    for jx, (a, b) in enumerate(jobs):
        if jx % ctx.nshards != ctx.shard:
            continue
        case = {"kind": "msweep", "A": cover[a], "B": cover[b], "m_hi": m_hi}
        ctx.run_case(_M, case, fn=lambda c, cx: msweep(cx, c["A"], c["B"], c["m_hi"]))
    nparts = 1 if ctx.tier == "quick" else 8
    mm = [(n1, n2, k) for (n1, n2) in MED_SIZES for k in range(nparts)]
    for jx, (n1, n2, k) in enumerate(mm):
        if (jx + 5) % ctx.nshards != ctx.shard:
            continue
        ctx.run_case(_M, {"kind": "medium-M", "n1": n1, "n2": n2, "tier": ctx.tier, "part": [k, nparts]})
    # medium diagrams (6..14 points, unequal sizes, generic and lattice-rounded)
    med = [(n, k, lat) for lat in (True, False) for n in ((6, 9, 14) if ctx.tier == "quick" else (6, 7, 9, 14, 25)) for k in range(2)]
    mjobs = [(a, b) for a in range(len(med)) for b in range(len(med))]
    for jx, (a, b) in enumerate(mjobs):
        if jx % ctx.nshards != ctx.shard:
            continue
        A_, B_ = medium_diagram(*med[a]), medium_diagram(*med[b])
        A_ = [[p[0] - 6.0, p[1] - 6.0] for p in A_]   # either sign
        B_ = [[p[0] - 6.0, p[1] - 6.0] for p in B_]
        case = {"kind": "medium", "A": A_, "B": B_}
        ctx.run_case(_M, case, fn=lambda c, cx: medium_pair(cx, c["A"], c["B"]))
    full = {}
    for part in allgather(ctx, "c15", table):
        full.update(part)
    for mi, M in enumerate(MS):
        if mi % ctx.nshards != ctx.shard:
            continue
        D = np.full((N, N), np.nan)
        for (i, j), o in full.items():
            if o and o.get(M) is not None:
                D[i, j] = o[M]
        ok = ~np.isnan(D)
        ctx.valid(int(ok.sum()))
        for i, j in np.argwhere(ok & ok.T & (np.abs(D - D.T) > 1e-12 * np.maximum(1.0, D)))[:5]:
            ctx.violation("symmetry", "SW(A,B) != SW(B,A)", observed=[D[i, j], D[j, i]],
                          case={"kind": "pair", "A": sp[i], "B": sp[j]})
        tol = 3e-9
        for i in range(N):
            viol = np.argwhere(D[i][None, :] > D[i][:, None] + D + tol)
            for j, k in viol[:3]:
                ctx.violation("triangle", "SW(A,C) > SW(A,B) + SW(B,C)", observed=[D[i, k], D[i, j], D[j, k]],
                              case={"kind": "triple", "A": sp[i], "B": sp[j], "C": sp[k], "M": M})
        ctx.valid(N ** 3)
        ctx.count("triples_checked", N ** 3)
