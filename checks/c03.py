"""C03 — exact landscape equals the k-th-largest-tent definition everywhere (explorer A, hook)."""
import sys

import numpy as np

from checks.common import AFF, medium_diagram
from mc.enumerate import bars, multisets_upto, distinct_permutations
from oracles import landscape as OL
from oracles import plfun as P

CALL_VARIANTS = True   # constructions are repeated with the diagram in another memory layout / a reused buffer (mc/ctx.py)
PROPERTY = "C03"
RULE = (
    "medium diagrams of 6..10 (thorough ..16) bars (Weyl family, lattice-rounded and generic) in 4 arrangements; ALL multisets of <= n bars with integer endpoints in {0..G}, b<d (nested, overlapping, disjoint, "
    "touching, equal births/deaths, repeated bars); per diagram: every row order (n<=3; reversal and "
    "rotation beyond), exact integer translations by -1,-2,-3,-5 and 2^20 (negative births, births at exactly 0), 4 affine variants, int array (also int8/uint8/int16/uint16 near the top of their range), nested lists, a trailing infinite bar, deferred computation (compute=False) triggered by compute_landscape(verbose=True) / compute_landscape_by_depth / indexing, hom_deg 0/1 with a decoy diagram in the other slot. "
    "Oracle: for every depth k=1..n+1 persim's PL function vs the k-th largest tent, exact rational "
    "arithmetic, on the union of persim's abscissae and all births/deaths/midpoints/crossings and "
    "outside both ends (both sides are linear in between, so this is equality for all real t). "
    "state = one diagram; transition = one PersLandscapeExact construction; non-trivial = the diagram has "
    "overlapping bars (some depth >= 2 is not identically zero)."
)
ASSUMPTIONS = [
    "known finding: the repeated-bar shortcut copies the previous depth (pinned by the repo's test suite); attributed via the PERSIM_VERIF hook only when every depth below the first copied one is still correct",
]
BOUNDS = {"quick": [{"n": 4, "G": 5}], "thorough": [{"n": 6, "G": 5}, {"n": 4, "G": 7}]}


def bounds(tier):
    return {"spaces": BOUNDS[tier], "aff": AFF[1:], "medium_family": MEDIUM[tier]}


MEDIUM = {"quick": {"n": [6, 7, 8, 10], "k": 4}, "thorough": {"n": [6, 7, 8, 10, 12, 16], "k": 8}}


def cases(tier):
    yield {"kind": "empty"}
    m = MEDIUM[tier]
    for lat in (True, False):
        for n in m["n"]:
            for k in range(m["k"]):
                yield {"kind": "medium", "n": n, "k": k, "lattice": lat}
    for sp in BOUNDS[tier]:
        for m in multisets_upto(bars(sp["G"]), sp["n"], min_size=1):
            yield {"D": [list(map(float, b)) for b in m]}


def trace_list():
    mod = sys.modules.get("persim.landscapes.exact")
    return getattr(mod, "_VERIF_TRACE", None)


def build(ctx, dgms, hom_deg, mode="eager"):
    """mode: 'eager' (default construction) | 'verbose' (compute=False, then compute_landscape(verbose=True))
    | 'by-depth' (compute=False, the landscape is first asked for through compute_landscape_by_depth)
    | 'getitem' (compute=False, first access through indexing)."""
    import contextlib
    import io

    from persim import PersLandscapeExact

    tr = trace_list()
    if tr is not None:
        del tr[:]
    if mode == "eager":
        pl = ctx.call(PersLandscapeExact, dgms=dgms, hom_deg=hom_deg)
    else:
        ctx.trans()
        pl = PersLandscapeExact(dgms=dgms, hom_deg=hom_deg, compute=False)
        with contextlib.redirect_stdout(io.StringIO()):
            if mode == "verbose":
                pl.compute_landscape(verbose=True)
            elif mode == "by-depth":
                first = pl.compute_landscape_by_depth(0)
            else:
                first = pl[0]
        if mode in ("by-depth", "getitem") and first != pl.critical_pairs[0]:
            ctx.violation("landscape-accessor", "%s of a deferred landscape returns something else than critical_pairs[0]" % mode,
                          observed=first, expected=pl.critical_pairs[0])
    cp = pl.critical_pairs
    if tr is not None:
        fired = [i for tag, i in tr if tag == "dup_shortcut"]
        first_copied = min(fired) if fired else None
    else:
        # hook not available: a copied depth shows as two equal consecutive depths
        first_copied = next((k for k in range(1, len(cp)) if cp[k] == cp[k - 1]), None)
    return pl, cp, first_copied


def compare(ctx, D, cp, first_copied, tol, what, sig):
    """D: the diagram persim was given (list of [b,d] floats, exact values)."""
    n = len(D)
    pts = OL.breakpoints(D)
    ctx.valid()
    # structure: abscissae ordered, functions vanish at both ends
    for k, depth in enumerate(cp):
        xs = [float(p[0]) for p in depth]
        if len(depth) < 2 or any(a > b for a, b in zip(xs, xs[1:])) or abs(depth[0][1]) > tol or abs(depth[-1][1]) > tol:
            if first_copied is not None and k >= first_copied:
                break
            ctx.violation(sig + "-structure", "critical points of depth %d are not ordered by abscissa / do not start and end at 0 [%s]" % (k + 1, what),
                          observed=depth, extra={"D": D})
            return False
    worst = None
    for k in range(1, max(n, len(cp)) + 2):
        f = P.make([(float(x), float(y)) for x, y in cp[k - 1]]) if k <= len(cp) else []
        ts = sorted(set(pts) | set(P.xs(f)))
        ts = [ts[0] - 1] + ts + [ts[-1] + 1]
        for t in ts:
            got, want = P.ev(f, t), OL.kth_tent(D, t, k)
            if abs(got - want) > tol:
                worst = (k, float(t), float(got), float(want))
                break
        if worst:
            break
    ctx.valid()
    if worst is None:
        return True
    k, t, got, want = worst
    if first_copied is not None and (k - 1) >= first_copied:
        ctx.violation("dup-shortcut", "depth %d at t=%g is %g, definition gives %g: repeated-bar shortcut copied depth %d [%s]"
                      % (k, t, got, want, first_copied + 1, what), observed=got, expected=want, extra={"D": D, "critical_pairs": cp})
    else:
        ctx.violation(sig, "depth %d at t=%g is %g but the k-th largest tent is %g [%s]" % (k, t, got, want, what),
                      observed=got, expected=want, extra={"D": D, "critical_pairs": cp, "first_copied_depth": first_copied})
    return False


def run_medium(case, ctx):
    """6..16 bars (Weyl family; half-integer-rounded with many coincidences, or generic): beyond the
    exhaustive multiset space, same oracle."""
    D = medium_diagram(int(case["n"]), int(case["k"]), bool(case["lattice"]))
    ctx.state(("medium", case["n"], case["k"], case["lattice"]))
    tol = 0 if case["lattice"] else 1e-9 * 20
    for what, Dv in (("as generated", D), ("reversed", D[::-1]), ("rotated", D[3:] + D[:3]), ("translated by -6", [[b - 6.0, d - 6.0] for b, d in D])):
        _, cp, fc = build(ctx, [np.array(Dv, dtype=float)], 0)
        compare(ctx, Dv, cp, fc, tol, "medium diagram (%s)" % what, "landscape-value-medium")
    _, cp, fc = build(ctx, [np.array(D[::-1], dtype=float)], 0, mode="verbose")
    compare(ctx, D[::-1], cp, fc, tol, "medium diagram (deferred, verbose)", "landscape-value-medium")
    ctx.nontriv("medium_diagram_%d_bars" % len(D))
    ctx.outcome(("medium", case["n"], case["k"], case["lattice"]))


def run_empty(case, ctx):
    """The diagram without finite bars (a (0,2) array, or nothing but an infinite bar): every depth is the
    zero function, i.e. no depth is returned (or only identically zero ones); no exception."""
    for what, dg in (("(0,2) array", np.zeros((0, 2))), ("one infinite bar", np.array([[0.0, float("inf")]])), ("empty list", [])):
        for mode in ("eager", "getitem-free"):
            ctx.state(("empty", what, mode))
            from persim import PersLandscapeExact

            ctx.trans()
            pl = PersLandscapeExact(dgms=[np.array([[0.0, 1.0]]), dg], hom_deg=1, compute=(mode == "eager"))
            if mode != "eager":
                pl.compute_landscape()
            ctx.valid()
            cp = pl.critical_pairs
            if any(abs(float(y)) > 0 for depth in cp for _, y in depth):
                ctx.violation("landscape-value-empty", "the landscape of a diagram without finite bars (%s) is not identically zero" % what, observed=cp)
            nrm = ctx.call(pl.p_norm, 2)
            ctx.valid()
            if not (nrm == 0):
                ctx.violation("landscape-value-empty", "the norm of the landscape of a diagram without finite bars (%s) is not 0" % what, observed=nrm)
    ctx.nontriv("diagram_without_finite_bars")
    ctx.outcome("empty")


def run_case(case, ctx):
    if case.get("kind") == "medium":
        return run_medium(case, ctx)
    if case.get("kind") == "empty":
        return run_empty(case, ctx)
    D = case["D"]
    n = len(D)
    ctx.state(D)
    pl, cp, fc = build(ctx, [np.array(D, dtype=float)], 0)
    ctx.outcome(cp)
    if OL.depth_count(D) >= 2:
        ctx.nontriv("overlapping_bars")
    if fc is not None:
        ctx.count("shortcut_fired")
    compare(ctx, D, cp, fc, 0, "float array", "landscape-value")
    # every row order
    if n <= 3:
        orders = [list(map(list, p)) for p in distinct_permutations(tuple(map(tuple, D)))]
    else:
        orders = [D[::-1], D[1:] + D[:1], D[2:] + D[:2]]
    for Dp in orders:
        if Dp == D:
            continue
        _, cpp, fcp = build(ctx, [np.array(Dp, dtype=float)], 0)
        compare(ctx, Dp, cpp, fcp, 0, "row order", "landscape-value-perm")
    # int array; hom_deg selects the diagram (decoy in the other slot)
    decoy = np.array([[0.0, 9.0], [1.0, 2.0], [0.5, 0.75]])
    _, cpi, fci = build(ctx, [np.array(D, dtype=int)], 0)
    compare(ctx, D, cpi, fci, 0, "int array", "landscape-value-container")
    # narrow / unsigned integer dtypes with values near the top of their range (b + d must not wrap)
    for dt, kk in ((np.int8, 25), (np.uint8, 50), (np.int16, 6000), (np.uint16, 13000)):
        Dk = [[b * kk, dd * kk] for b, dd in D]
        if max(x for p_ in Dk for x in p_) > np.iinfo(dt).max:
            continue        # the scaled diagram does not fit this dtype (larger lattices of the thorough tier)
        _, cpk, fck = build(ctx, [np.array(Dk, dtype=dt)], 0)
        compare(ctx, Dk, cpk, fck, 0, "%s array x %d" % (np.dtype(dt), kk), "landscape-value-int-dtype")
    # single / half precision diagrams: the landscape is that of the stored values (the sweep's midpoints and
    # half-lengths are not representable in the narrow type: they must be formed in double precision)
    D32 = np.array([[b / 3.0 + 0.1, dd / 3.0 + 0.1] for b, dd in D], dtype=np.float32)
    D32l = [[float(x) for x in row] for row in D32]
    _, cp32, fc32 = build(ctx, [D32], 0)
    compare(ctx, D32l, cp32, fc32, 1e-12, "float32 array (generic values)", "landscape-value-narrow-float")
    D16 = np.array([[1024.0 + 3 * b + 1, 1024.0 + 3 * dd + 2] for b, dd in D], dtype=np.float16)
    D16l = [[float(x) for x in row] for row in D16]
    _, cp16, fc16 = build(ctx, [D16], 0)
    compare(ctx, D16l, cp16, fc16, 1e-9, "float16 array (integers above 1024)", "landscape-value-narrow-float")
    # nested lists; deferred computation (compute=False) triggered by each public accessor, verbose sweep
    _, cpl, fcl = build(ctx, [[list(p) for p in D]], 0)
    compare(ctx, D, cpl, fcl, 0, "nested lists", "landscape-value-container")
    for mode in ("verbose", "by-depth", "getitem"):
        _, cpm, fcm = build(ctx, [np.array(D[::-1], dtype=float)], 0, mode=mode)
        compare(ctx, D[::-1], cpm, fcm, 0, "deferred computation, %s" % mode, "landscape-value-deferred")
    # a trailing infinite bar (ripser's H0 layout) is dropped
    _, cpf, fcf = build(ctx, [np.array(D + [[0.0, float("inf")]], dtype=float)], 0)
    compare(ctx, D, cpf, fcf, 0, "trailing infinite bar", "landscape-value-inf")
    _, cp0, fc0 = build(ctx, [np.array(D, dtype=float), decoy], 0)
    compare(ctx, D, cp0, fc0, 0, "hom_deg=0 of [D, decoy]", "landscape-value-homdeg")
    _, cp1, fc1 = build(ctx, [decoy, np.array(D, dtype=float)], 1)
    compare(ctx, D, cp1, fc1, 0, "hom_deg=1 of [decoy, D]", "landscape-value-homdeg")
    # an EMPTY diagram in a lower degree must not shift the selection
    _, cpe, fce = build(ctx, [np.zeros((0, 2)), np.array(D, dtype=float), decoy], 1)
    compare(ctx, D, cpe, fce, 0, "hom_deg=1 of [empty, D, decoy]", "landscape-value-homdeg")
    _, cpe2, fce2 = build(ctx, [np.zeros((0, 2)), decoy, np.array(D, dtype=float)], 2)
    compare(ctx, D, cpe2, fce2, 0, "hom_deg=2 of [empty, decoy, D]", "landscape-value-homdeg")
    # exact integer translations: negative births, a bar born at exactly 0, large offsets (tolerance 0)
    for c in (-1.0, -2.0, -3.0, -5.0, 1048576.0):
        D3 = [[b + c, dd + c] for b, dd in D]
        _, cp3, fc3 = build(ctx, [np.array(D3, dtype=float)], 0)
        compare(ctx, D3, cp3, fc3, 0, "translated by %r" % c, "landscape-value-shift")
    # affine variants (inexact coordinates, negative values, large offset)
    for a, c in AFF[1:]:
        D2 = [[a * b + c, a * d + c] for b, d in D]
        _, cp2, fc2 = build(ctx, [np.array(D2, dtype=float)], 0)
        sc = abs(c) + a * 10  # tolerance relative to the diagram's own coordinate scale
        compare(ctx, D2, cp2, fc2, 1e-9 * sc, "affine a=%r c=%r" % (a, c), "landscape-value-aff")
