"""C07 — bottleneck / Wasserstein obey the metric and invariance laws at any size (explorer A on a
scaled family: k-fold replications of every small lattice diagram, optionally doubled by a far
cluster; laws on ALL ordered pairs and ALL triples inside each stratum and across strata)."""
import math

import numpy as np

from checks.common import call_warn, is_num
from mc.barrier import allgather
from mc.enumerate import lattice_points, multisets_upto
from oracles import matching as om

PROPERTY = "C07"
HASH_GROUPS = {"quick": 1, "thorough": 2}
DETERMINISTIC = True
RULE = (
    "family: for every base multiset S of <= n points of the lattice {0<=b<=d<=3} and replication "
    "factor k: k exact copies of S, optionally united with the same cluster translated by "
    "(1000,1000) (up to several hundred points, every tie/multiplicity the lattice produces). "
    "ALL ordered pairs per stratum (and across strata for bases of <= 1 point) are executed with both "
    "distances, plus a reordered+diagonal-points variant and an affine variant per pair; ALL triples "
    "per stratum are checked for the triangle inequality. A second family without ties: deterministic Weyl-"
    "sequence diagrams of 48..96 (thorough ..250) generic points, ALL ordered pairs against reference values "
    "from an independent threshold search (scipy bipartite matching) / assignment, same variants, ALL triples; "
    "A third family with closed-form values: chains of 400..650 (thorough ..1200) long bars against their translates (deep alternating-path searches in the matching routine). Replication oracle: d_B(kS,kT)=d_B(S,T), "
    "W(kS,kT)=k*W(S,T) with d(S,T) certified by brute force. state = one ordered pair of family "
    "members; transition = one persim distance call; non-trivial = pair of different diagrams with "
    ">= 50 points in one of them, or a tight triangle (equality) among distinct diagrams."
)
ASSUMPTIONS = [
    "diagrams of hundreds of *unrelated* points are outside: only the replicated/two-cluster family has an exact oracle",
    "brute-force oracle certifies the base distances (k=1)",
]
FAR = 1000.0
# (n of base multisets, k, two_cluster)
STRATA = {
    "quick": [(2, 1, False), (2, 1, True), (2, 8, False), (2, 8, True), (2, 24, False), (2, 12, True), (1, 100, True)],
    "thorough": [(3, 1, False), (3, 1, True), (3, 8, False), (2, 8, True), (2, 40, False), (2, 24, True), (1, 200, True)],
}
WTOL = 1e-9
AFFINE = (0.1, -3.7)
DIAG_X = [[2.0, 2.0]]
DIAG_Y = [[0.0, 0.0], [1.5, 1.5], [1000.0, 1000.0]]


# ---- "generic" large diagrams: a deterministic Weyl (irrational rotation) family, no ties --------
GENERIC = {"quick": {"n": [48, 64, 96], "k": 4}, "thorough": {"n": [48, 64, 96, 150, 200], "k": 4}}


def weyl(n, k):
    """n points: births spread over [0,10) by the golden rotation, persistences skewed to small."""
    phi = (math.sqrt(5.0) - 1.0) / 2.0
    s2 = math.sqrt(2.0) - 1.0
    pts = []
    for i in range(1, n + 1):
        b = (((i + 17 * k) * phi) % 1.0) * 10.0
        p = ((((i + 5 * k) * s2) % 1.0) ** 2) * 3.0
        pts.append([b, b + p])
    return pts


def generic_members(tier):
    g = GENERIC[tier]
    return [(n, k) for n in g["n"] for k in range(g["k"])]


def generic_pair_laws(ctx, ma, mb, want_sym=False):
    """Pair of generic large diagrams: exact reference values (threshold search with scipy's bipartite
    matching / assignment on an independently built matrix) + invariances."""
    X, Y = weyl(*ma), weyl(*mb)
    case = {"kind": "gen-pair", "a": list(ma), "b": list(mb)}
    bad = lambda sig, msg, obs=None, exp=None: ctx.violation(sig, msg, observed=obs, expected=exp, case=case)  # noqa: E731
    b, w = dists(ctx, X, Y)
    ctx.state(("gen", ma, mb))
    ctx.valid(3)
    if not (is_num(b) and is_num(w) and np.isfinite(b) and np.isfinite(w)):
        bad("not-a-number", "distance is not a finite number", [b, w])
        return None
    b, w = float(b), float(w)
    ctx.outcome((round(b, 9), round(w, 9)))
    rb, rw = om.bottleneck_large_ref(X, Y), om.wasserstein_large_ref(X, Y)
    if abs(b - rb) > 1e-12 * max(1.0, rb):
        bad("bottleneck-value", "bottleneck of two generic %d/%d-point diagrams differs from the reference threshold search" % (len(X), len(Y)), b, rb)
    if abs(w - rw) > wtol(rw):
        bad("wasserstein-value", "Wasserstein of two generic %d/%d-point diagrams differs from the reference assignment" % (len(X), len(Y)), w, rw)
    if b < 0 or b > w + wtol(w):
        bad("bottleneck-exceeds-wasserstein", "0 <= bottleneck <= Wasserstein violated", [b, w])
    if ma == mb and (b != 0.0 or abs(w) > WTOL):
        bad("self-distance", "distance of a diagram to itself is not 0", [b, w], 0)
    if ma != mb:
        ctx.nontriv("generic_large_pair", key=("gen", ma, mb))
    # variant 1: rows reordered + diagonal points added on both sides
    r = len(X) // 3
    X1 = [[3.3, 3.3]] + X[r:] + X[:r] + [[0.0, 0.0]]
    Y1 = Y[::-1] + [[7.25, 7.25], [1.5, 1.5], [1000.0, 1000.0]]
    b1, w1 = dists(ctx, X1, Y1)
    ctx.valid()
    if not (is_num(b1) and is_num(w1)) or abs(b1 - b) > 1e-12 or abs(w1 - w) > wtol(w):
        bad("reorder-diagonal-invariance", "value changed after reordering rows and adding diagonal points", [b1, w1], [b, w])
    # variant 2: affine map (scale 0.1, shift -3.7) on both diagrams
    a, c = AFFINE
    b2, w2 = dists(ctx, [[a * p[0] + c, a * p[1] + c] for p in X], [[a * p[0] + c, a * p[1] + c] for p in Y])
    ctx.valid()
    if not (is_num(b2) and is_num(w2)) or abs(b2 - a * b) > 1e-11 or abs(w2 - a * w) > wtol(a * w) + 1e-11 * (len(X) + len(Y)):
        bad("affine-equivariance", "value is not |a| * d after x -> a*x + c on both diagrams", [b2, w2], [a * b, a * w])
    # against the empty diagram and against itself plus diagonal points
    if ma == mb:
        be, we = dists(ctx, X, [])
        pers = [p[1] - p[0] for p in X]
        ctx.valid()
        if abs(be - max(pers) / 2.0) > 1e-12 or abs(we - math.fsum(pers) / math.sqrt(2.0)) > wtol(we):
            bad("vs-empty", "distance to the empty diagram is not max persistence/2 resp. total persistence/sqrt2", [be, we])
        bd, wd = dists(ctx, X + [[2.0, 2.0], [9.5, 9.5]], X[::-1])
        ctx.valid()
        if bd != 0.0 or abs(wd) > WTOL:
            bad("self-distance", "d(X + diagonal points, reordered X) is not 0", [bd, wd], 0)
    if want_sym:
        b3, w3 = dists(ctx, Y, X)
        if abs(b3 - b) > 1e-12 or abs(w3 - w) > wtol(w):
            bad("symmetry", "d(X,Y) != d(Y,X)", [b3, w3], [b, w])
    return b, w


def bounds(tier):
    return {"strata(n,k,two_cluster)": STRATA[tier], "lattice_G": 3, "far_shift": FAR,
            "affine_variant": AFFINE, "hash_groups": HASH_GROUPS[tier], "generic_weyl_family": GENERIC[tier]}


def bases(n):
    return [[list(p) for p in m] for m in multisets_upto(lattice_points(3), n)]


def rep(S, k, two):
    X = [[float(p[0]), float(p[1])] for p in S] * k
    if two:
        X = X + [[p[0] + FAR, p[1] + FAR] for p in X]
    return X


def arr(X):
    return np.array(X, dtype=float).reshape(-1, 2)


def dists(ctx, X, Y):
    import persim

    b, _ = call_warn(ctx, persim.bottleneck, arr(X), arr(Y))
    w, _ = call_warn(ctx, persim.wasserstein, arr(X), arr(Y))
    return b, w


def wtol(*vals):
    return WTOL * max([1.0] + [abs(v) for v in vals if is_num(v) and np.isfinite(v)])


def pair_laws(ctx, st, S, T, want_sym=False):
    """All pair-level laws for the family members built from bases S, T in stratum st."""
    n, k, two = st
    X, Y = rep(S, k, two), rep(T, k, two)
    case = {"kind": "pair", "stratum": list(st), "S": S, "T": T}
    bad = lambda sig, msg, obs=None, exp=None: ctx.violation(sig, msg, observed=obs, expected=exp, case=case)  # noqa: E731
    b, w = dists(ctx, X, Y)
    ctx.state((st, S, T))
    ctx.valid()
    if not (is_num(b) and is_num(w) and np.isfinite(b) and np.isfinite(w)):
        bad("not-a-number", "distance is not a finite number", [b, w])
        return None
    b, w = float(b), float(w)
    ctx.outcome((round(b, 9), round(w, 9)))
    if b < 0 or w < 0:
        bad("negative", "distance is negative", [b, w])
    if b > w + wtol(w):
        bad("bottleneck-exceeds-wasserstein", "bottleneck > Wasserstein", b, w)
    m = 2 * k if two else k
    # replication oracle (exact value at large size)
    if len(S) <= 4 and len(T) <= 4:
        rb, _ = om.bottleneck_ref(S, T)
        rw, _ = om.wasserstein_ref(S, T)
        ctx.valid(2)
        if b != rb:
            bad("bottleneck-value", "d_B(k copies) != d_B(base) (brute force)", b, rb)
        if abs(w - m * rw) > wtol(m * rw):
            bad("wasserstein-value", "W(k copies) != k*W(base) (brute force)", w, m * rw)
    if S == T:
        ctx.valid()
        if b != 0.0 or abs(w) > WTOL:
            bad("self-distance", "distance of a diagram to itself is not 0", [b, w], 0)
    if not T:
        pers = [p[1] - p[0] for p in X]
        eb = max(pers) / 2.0 if pers else 0.0
        ew = math.fsum(pers) / math.sqrt(2.0)
        ctx.valid()
        if b != eb or abs(w - ew) > wtol(ew):
            bad("vs-empty", "distance to the empty diagram is not max persistence/2 resp. total persistence/sqrt2",
                [b, w], [eb, ew])
    if max(len(X), len(Y)) >= 50 and S != T:
        ctx.nontriv("large_pair_of_different_diagrams", key=(st, S, T))
    # variant 1: rows reordered (X rotated by one third, Y reversed) + diagonal points added
    r = len(X) // 3
    X1 = DIAG_X + X[r:] + X[:r]
    Y1 = Y[::-1] + DIAG_Y
    b1, w1 = dists(ctx, X1, Y1)
    ctx.valid()
    if not (is_num(b1) and is_num(w1)) or b1 != b or abs(w1 - w) > wtol(w):
        bad("reorder-diagonal-invariance", "value changed after reordering rows and adding diagonal points",
            [b1, w1], [b, w])
    # variant 2: both diagrams mapped by x -> a*x + c (scales linearly, unchanged by the shift)
    a, c = AFFINE
    X2 = [[a * p[0] + c, a * p[1] + c] for p in X]
    Y2 = [[a * p[0] + c, a * p[1] + c] for p in Y]
    b2, w2 = dists(ctx, X2, Y2)
    ctx.valid()
    sc = 1e-12 * (abs(c) + a * (FAR + 3))
    if not (is_num(b2) and is_num(w2)) or abs(b2 - a * b) > sc * 4 or abs(w2 - a * w) > wtol(a * w) + sc * (len(X) + len(Y)):
        bad("affine-equivariance", "value is not |a| * d after x -> a*x + c on both diagrams", [b2, w2], [a * b, a * w])
    # variant 3 (smaller strata): tiny numeric scale, both distances must scale linearly
    if k <= 8:
        t = 2.0 ** -43
        b4, w4 = dists(ctx, [[t * p[0], t * p[1]] for p in X], [[t * p[0], t * p[1]] for p in Y])
        ctx.valid()
        if not (is_num(b4) and is_num(w4)) or b4 != t * b or abs(w4 - t * w) > WTOL * t * max(1.0, w):
            bad("tiny-scale", "value is not c * d after scaling both diagrams by c = 2^-43", [b4, w4], [t * b, t * w])
    # variant 4 (smaller strata): the same VALUES in different dtypes on the two sides (integer array against
    # a fractional float array): symmetric, and equal to the all-float call; the scaling law across dtypes
    if k <= 8 and X and Y:
        import persim

        Yh = [[0.5 * p[0] + 0.25, 0.5 * p[1] + 0.25] for p in Y]
        Xi = np.array(X, dtype=np.int64).reshape(-1, 2)
        bf, wf = dists(ctx, X, Yh)
        for which, fn, ref_, tol_ in (("bottleneck", persim.bottleneck, bf, 0.0), ("wasserstein", persim.wasserstein, wf, wtol(wf))):
            v1, _ = call_warn(ctx, fn, Xi, arr(Yh))
            v2, _ = call_warn(ctx, fn, arr(Yh), Xi)
            ctx.valid(2)
            if not (is_num(v1) and is_num(v2)) or abs(v1 - ref_) > tol_ or abs(v2 - ref_) > tol_:
                bad("mixed-dtype-symmetry", "%s of an integer array and a fractional float array depends on the argument order / differs from the all-float call" % which,
                    [v1, v2], ref_)
    # variant 4b (smaller strata): the diagrams given as Python lists of their rows (1-D arrays), reordered
    if k <= 8 and X and Y:
        import persim

        Xr = [np.array(p, dtype=float) for p in X[::-1]]
        Yr = tuple(np.array(p, dtype=float) for p in Y)
        bl, _ = call_warn(ctx, persim.bottleneck, Xr, Yr)
        wl, _ = call_warn(ctx, persim.wasserstein, Xr, Yr)
        ctx.valid(2)
        if not (is_num(bl) and is_num(wl)) or bl != b or abs(wl - w) > wtol(w):
            bad("row-list-container", "distances of diagrams given as lists of row arrays (reordered) differ from those of the arrays", [bl, wl], [b, w])
    # variant 5 (smaller strata): X against a copy of itself scaled by (1 + 2^-25): every point goes to its own
    # copy (the moves are far smaller than any gap), so both values are known in closed form and 0 < d_B <= W
    if k <= 8 and S == T and any(p[1] > p[0] for p in X):
        f = 1.0 + 2.0 ** -25
        Xs = [[f * p[0], f * p[1]] for p in X]
        b5, w5 = dists(ctx, X, Xs)
        off = [p for p in X if p[1] > p[0]]          # (points ON the diagonal stay on it: they cost nothing)
        eb = max([max(abs(f * p[0] - p[0]), abs(f * p[1] - p[1])) for p in off] or [0.0])
        ew = math.fsum(math.hypot(f * p[0] - p[0], f * p[1] - p[1]) for p in off)
        ctx.valid(2)
        if not (is_num(b5) and is_num(w5)) or abs(b5 - eb) > 1e-9 * eb + 1e-300 or abs(w5 - ew) > 1e-9 * ew + 1e-300 or b5 > w5 * (1 + 1e-9) + 1e-300:
            bad("nearly-equal-copy", "distances between a diagram and its copy scaled by 1 + 2^-25 are not the tiny moves of its points", [b5, w5], [eb, ew])
    if want_sym:
        b3, w3 = dists(ctx, Y, X)
        ctx.valid()
        if b3 != b or abs(w3 - w) > wtol(w):
            bad("symmetry", "d(X,Y) != d(Y,X)", [b3, w3], [b, w])
    return b, w


def members(tier):
    """Family as list of (stratum, base index within bases(n), base)."""
    out = []
    for st in STRATA[tier]:
        for i, S in enumerate(bases(st[0])):
            out.append((st, i, S))
    return out


# ---- structured large diagrams with closed-form distances -----------------------------------------
# chain: n long bars (i*gap, i*gap + H) against the same bars moved by (dx, dy): every point is matched to
# its own copy (all other pairings and the diagonal are far more expensive), so d_B = max(|dx|,|dy|) and
# W = n*sqrt(dx^2+dy^2).  Long alternating paths: the matching routine needs deep searches here.
CHAINS = {"quick": [(500, 1.0, 1000.0, 0.6, 0.6), (400, 1.0, 50.0, 0.25, -0.4), (560, 0.5, 2000.0, 0.2, 0.1)],
          "thorough": [(500, 1.0, 1000.0, 0.6, 0.6), (400, 1.0, 50.0, 0.25, -0.4), (650, 0.5, 2000.0, 0.2, 0.1), (900, 1.0, 1000.0, 0.6, 0.6), (1200, 2.0, 5000.0, 0.9, 0.3)]}


def chain_laws(ctx, n, gap, H, dx, dy):
    case = {"kind": "chain", "n": n, "gap": gap, "H": H, "dx": dx, "dy": dy}
    bad = lambda sig, msg, obs=None, exp=None: ctx.violation(sig, msg, observed=obs, expected=exp, case=case)  # noqa: E731
    X = [[i * gap, i * gap + H] for i in range(n)]
    Y = [[b + dx, d + dy] for b, d in X]
    ctx.state(("chain", n, gap, H, dx, dy))
    ctx.nontriv("structured_chain_%d_points" % n, key=("chain", n, gap, H, dx, dy))
    rb, rw = max(abs(dx), abs(dy)), n * math.hypot(dx, dy)
    for what, A, B in (("(X,Y)", X, Y), ("(Y reversed, X rotated)", Y[::-1], X[n // 3:] + X[:n // 3])):
        b, w = dists(ctx, A, B)
        ctx.valid(2)
        if not (is_num(b) and abs(float(b) - rb) <= 1e-9 * max(1.0, H)):
            bad("bottleneck-value", "bottleneck of a %d-point chain and its translate %s is not max(|dx|,|dy|)" % (n, what), b, rb)
        if not (is_num(w) and abs(float(w) - rw) <= 1e-9 * n * max(1.0, H)):
            bad("wasserstein-value", "Wasserstein of a %d-point chain and its translate %s is not n*|shift|" % (n, what), w, rw)
    b0, w0 = dists(ctx, X, X[::-1])
    ctx.valid()
    if b0 != 0.0 or abs(w0) > WTOL:
        bad("self-distance", "distance of a %d-point chain to its reversal is not 0" % n, [b0, w0], 0)
    be, we = dists(ctx, [], Y)
    ctx.valid()
    if abs(be - (H + dy - dx) / 2.0) > 1e-9 * H or abs(we - n * (H + dy - dx) / math.sqrt(2.0)) > 1e-9 * n * H:
        bad("vs-empty", "distance of a chain to the empty diagram is not max persistence/2 resp. total persistence/sqrt2", [be, we])
    ctx.outcome(("chain", n))


def run_shard(ctx):
    tier = ctx.tier
    strata = STRATA[tier]
    ctx.info["family_sizes"] = {str(st): len(bases(st[0])) for st in strata}
    # ---------------- phase 1: every ordered pair inside every stratum (sharded by pair index)
    todo = []
    for st in strata:
        B = bases(st[0])
        for i in range(len(B)):
            for j in range(len(B)):
                todo.append((st, i, j))
    # cross-strata pairs: bases of <= 1 point, all strata (unequal sizes)
    B1 = bases(1)
    cross = [(st, i) for st in strata for i in range(len(B1))]
    for x in range(len(cross)):
        for y in range(len(cross)):
            if cross[x][0] != cross[y][0]:
                todo.append(("cross", x, y))
    gen = generic_members(tier)
    for x in range(len(gen)):
        for y in range(len(gen)):
            todo.append(("gen", x, y))
    for ci in range(len(CHAINS[tier])):
        todo.append(("chain", ci))

    # heaviest first so that the shards finish together
    def weight(t):
        if t[0] == "chain":
            return 10 ** 6
        if t[0] == "gen":
            return max(gen[t[1]][0], gen[t[2]][0]) * 3
        if t[0] == "cross":
            return max(cross[t[1]][0][1] * (2 if cross[t[1]][0][2] else 1), cross[t[2]][0][1] * (2 if cross[t[2]][0][2] else 1))
        return t[0][1] * (2 if t[0][2] else 1) * t[0][0]
    todo.sort(key=lambda t: -weight(t))
    table = {}
    for idx, t in enumerate(todo):
        if idx % ctx.nshards != ctx.shard:
            continue
        if t[0] == "chain":
            ch = CHAINS[tier][t[1]]
            ctx.run_case(_M, {"kind": "chain", "n": ch[0], "gap": ch[1], "H": ch[2], "dx": ch[3], "dy": ch[4]}, fn=lambda c, cx: chain_laws(cx, *ch))
        elif t[0] == "gen":
            ma, mb = gen[t[1]], gen[t[2]]
            res = [None]
            ctx.run_case(_M, {"kind": "gen-pair", "a": list(ma), "b": list(mb)}, fn=lambda c, cx: res.__setitem__(0, generic_pair_laws(cx, ma, mb)))
            table[t] = res[0]
        elif t[0] == "cross":
            (sx, i), (sy, j) = cross[t[1]], cross[t[2]]
            case = {"kind": "cross", "sx": list(sx), "sy": list(sy), "S": B1[i], "T": B1[j]}
            res = [None]
            ctx.run_case(_M, case, fn=lambda c, cx: res.__setitem__(0, cross_laws(cx, sx, sy, B1[i], B1[j])))
            table[t] = res[0]
        else:
            st, i, j = t
            B = bases(st[0])
            case = {"kind": "pair", "stratum": list(st), "S": B[i], "T": B[j]}
            res = [None]
            ctx.run_case(_M, case, fn=lambda c, cx: res.__setitem__(0, pair_laws(cx, st, B[i], B[j])))
            table[t] = res[0]
    # ---------------- all-gather the distance tables
    full = {}
    for part in allgather(ctx, "c07_phase1", table):
        full.update(part)
    # ---------------- phase 2: symmetry + triangle inequality on ALL triples (numpy, per stratum)
    jobs = [("st", st) for st in strata] + [("cross", None), ("gen", None)]
    for jx, (kind, st) in enumerate(jobs):
        if jx % ctx.nshards != ctx.shard:
            continue
        if kind == "st":
            B = bases(st[0])
            N = len(B)
            name = lambda i: {"stratum": list(st), "base": B[i]}  # noqa: E731
            get = lambda i, j: full.get((st, i, j))  # noqa: E731
        elif kind == "gen":
            N = len(gen)
            name = lambda x: {"weyl": list(gen[x])}  # noqa: E731
            get = lambda x, y: full.get(("gen", x, y))  # noqa: E731
        else:
            N = len(cross)
            name = lambda x: {"stratum": list(cross[x][0]), "base": B1[cross[x][1]]}  # noqa: E731

            def get(x, y):
                if cross[x][0] == cross[y][0]:
                    return full.get((cross[x][0], cross[x][1], cross[y][1]))
                return full.get(("cross", x, y))
        for which in (0, 1):
            D = np.full((N, N), np.nan)
            for i in range(N):
                for j in range(N):
                    v = get(i, j)
                    if v is not None:
                        D[i, j] = v[which]
            ok = ~np.isnan(D)
            tol = (1e-12 if kind == "gen" else 0.0) if which == 0 else WTOL * max(1.0, np.nanmax(D) if ok.any() else 1.0)
            # symmetry
            asym = np.argwhere(ok & ok.T & (np.abs(D - D.T) > tol))
            ctx.valid(int(ok.sum()))
            for i, j in asym[:5]:
                ctx.violation("symmetry", "d(X,Y) != d(Y,X) (%s)" % ("bottleneck" if which == 0 else "wasserstein"),
                              observed=[D[i, j], D[j, i]],
                              case={"kind": "sym", "X": name(i), "Y": name(j)})
            # triangle: D[i,k] <= D[i,j] + D[j,k]
            ntri = 0
            for i in range(N):
                lhs = D[i][None, :]  # [1,k]
                rhs = D[i][:, None] + D  # [j,k]
                viol = np.argwhere(lhs > rhs + tol * 3)
                tight = int(np.sum(np.abs(lhs - rhs) <= tol)) if which == 0 else 0
                ntri += N * N
                if tight:
                    ctx.count("tight_triangles_bottleneck", tight)
                for j, k in viol[:3]:
                    ctx.violation("triangle", "d(X,Z) > d(X,Y) + d(Y,Z) (%s)" % ("bottleneck" if which == 0 else "wasserstein"),
                                  observed=[D[i, k], D[i, j], D[j, k]],
                                  case={"kind": "triple", "X": name(i), "Y": name(j), "Z": name(k)})
            ctx.valid(ntri)
            ctx.count("triples_checked", ntri)
        ctx.nontriv("triangle_table_complete", key=("tri", kind, st))


def cross_laws(ctx, sx, sy, S, T):
    """Pair of family members from different strata (unequal sizes): values for the triple tables
    plus the sanity laws that need no oracle."""
    X, Y = rep(S, sx[1], sx[2]), rep(T, sy[1], sy[2])
    case = {"kind": "cross", "sx": list(sx), "sy": list(sy), "S": S, "T": T}
    b, w = dists(ctx, X, Y)
    ctx.state((sx, sy, S, T))
    ctx.valid()
    if not (is_num(b) and is_num(w) and np.isfinite(b) and np.isfinite(w)):
        ctx.violation("not-a-number", "distance is not a finite number", observed=[b, w], case=case)
        return None
    b, w = float(b), float(w)
    ctx.outcome((round(b, 9), round(w, 9)))
    if b < 0 or w < 0 or b > w + wtol(w):
        ctx.violation("bottleneck-exceeds-wasserstein", "0 <= bottleneck <= Wasserstein violated", observed=[b, w], case=case)
    if max(len(X), len(Y)) >= 50 and (S != T):
        ctx.nontriv("large_cross_stratum_pair", key=(sx, sy, S, T))
    return b, w


def run_case(case, ctx):
    """Replay entry: re-derive everything for one recorded pair / triple by direct computation."""
    kind = case.get("kind")
    tup = lambda s: (int(s[0]), int(s[1]), bool(s[2]))  # noqa: E731
    if kind == "pair":
        pair_laws(ctx, tup(case["stratum"]), case["S"], case["T"], want_sym=True)
    elif kind == "cross":
        cross_laws(ctx, tup(case["sx"]), tup(case["sy"]), case["S"], case["T"])
    elif kind == "chain":
        chain_laws(ctx, int(case["n"]), float(case["gap"]), float(case["H"]), float(case["dx"]), float(case["dy"]))
    elif kind == "gen-pair":
        generic_pair_laws(ctx, tuple(int(v) for v in case["a"]), tuple(int(v) for v in case["b"]), want_sym=True)
    elif kind in ("sym", "triple"):
        mk = lambda m: weyl(*[int(v) for v in m["weyl"]]) if "weyl" in m else rep(m["base"], int(m["stratum"][1]), bool(m["stratum"][2]))  # noqa: E731
        X, Y = mk(case["X"]), mk(case["Y"])
        bxy, wxy = dists(ctx, X, Y)
        byx, wyx = dists(ctx, Y, X)
        if bxy != byx or abs(wxy - wyx) > wtol(wxy):
            ctx.violation("symmetry", "d(X,Y) != d(Y,X)", observed=[[bxy, wxy], [byx, wyx]])
        if kind == "triple":
            Z = mk(case["Z"])
            bxz, wxz = dists(ctx, X, Z)
            byz, wyz = dists(ctx, Y, Z)
            if bxz > bxy + byz or wxz > wxy + wyz + 3 * wtol(wxy, wyz):
                ctx.violation("triangle", "d(X,Z) > d(X,Y) + d(Y,Z)", observed=[[bxz, wxz], [bxy, wxy], [byz, wyz]])


class _M:
    """module-like handle for Ctx.run_case (selfcheck flag lookup)."""
    DETERMINISTIC = True
    run_case = staticmethod(run_case)
