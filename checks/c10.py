"""C10 — landscape p-norms and sup-norm equal the integrals they name (explorer A)."""
import math

import numpy as np

from checks import lsops
from checks.common import call_warn, is_num, medium_diagram
from mc.enumerate import bars, multisets_upto
from oracles import landscape as OL
from oracles import plfun as P

PROPERTY = "C10"
PS = [1, 2, 3, 4, 1.5, 2.5, 7, 50]
SCALES = [1e-9, 1e-4, 0.1, 1e3, 1e6]
RTOL = 1e-9
RULE = (
    "exact class: every operand of the C09 set (landscapes of all multisets of <= 2 lattice bars, all "
    "38 hand-made PL functions with ordinates in {-1,0,1,2}, 6 two-depth ones), EVERY ordered pair "
    "(A,B) with the differences A-B and 2A-B (sign changes, flat and nearly cancelling segments); grid "
    "class: all value arrays over {-1,0,1,2} on 3 nodes (subsets on 4, 5 nodes), all pairs on the 3-node "
    "grid; p in {1,2,3,4,1.5,2.5,7,50} (and 33 exponents 1..150 on a cover) and the sup norm; reference = exact rational PL integration "
    "(oracles/plfun.py). Stability: all pairs of diagrams of <= n bars on {0..4}: sup-norm of the "
    "landscape difference <= bottleneck. state = one function (operand or combination); transition = "
    "one persim call; non-trivial = the function has a segment crossing zero or a negative value."
    " Norms also as the first operation on compute=False landscapes (both classes)."
)
ASSUMPTIONS = [
    "the function a landscape object represents is read from its own critical pairs / values (arithmetic itself is C09's subject)",
    "stability is evaluated only on pairs whose two exact landscapes agree with the definition (others belong to C03's known finding)",
]


def bounds(tier):
    return {"p": PS, "scales": SCALES, "rtol": RTOL, "stability_bars_G": 4, "stability_n": 2 if tier == "quick" else 3,
            "exact_operands": len(lsops.exact_operand_specs()), "grids": lsops.GRIDS}


def cases(tier):
    ex = lsops.exact_operand_specs(tier)
    for i in range(len(ex)):
        yield {"kind": "exact-row", "i": i}
    for gi, grid in enumerate(lsops.GRIDS):
        sp = lsops.approx_operand_specs(grid, tier)
        for i in range(len(sp)):
            yield {"kind": "approx-row", "grid": gi, "i": i}
    yield {"kind": "far-grid"}
    yield {"kind": "p-types"}
    n = 2 if tier == "quick" else 3
    dg = [[list(map(float, b)) for b in m] for m in multisets_upto(bars(4), n, min_size=1)]
    for i in range(len(dg)):
        yield {"kind": "stability-row", "i": i, "n": n}
    # long landscapes: differences of medium / large diagrams (dozens of critical points per depth,
    # generic floats give nearly flat and nearly cancelling segments)
    for nb in ((6, 10, 30) if tier == "quick" else (6, 10, 16, 30, 60)):
        for k in range(3):
            for lat in (True, False):
                yield {"kind": "long", "n": nb, "k": k, "lattice": lat}


def crosses(fs):
    for f in fs:
        for (x0, y0), (x1, y1) in zip(f, f[1:]):
            if (y0 < 0 < y1) or (y1 < 0 < y0):
                return True
    return False


def check_norms(ctx, pl, fs, what, desc, ps=None):
    """Compare every norm of the persim object `pl` with the integrals of the reference functions fs."""
    ctx.state((what, [[(float(x), float(y)) for x, y in f] for f in fs]))
    if crosses(fs):
        ctx.nontriv("segment_crosses_zero", key=(what, desc))
    elif any(y < 0 for f in fs for _, y in f):
        ctx.nontriv("negative_values", key=(what, desc))
    for p in (ps or PS):
        v = ctx.call(pl.p_norm, p)
        ref = P.p_norm(fs, p)
        ctx.valid()
        floor = 1e-6 * float(max([abs(y) for f in fs for _, y in f] or [1.0]) or 1.0)
        ok = is_num(v) and not isinstance(v, complex) and np.isfinite(v) and abs(float(v) - ref) <= RTOL * max(ref, floor)
        if not ok:
            ctx.violation("p-norm-%s" % what, "p_norm(p=%r) of %s is not the p-th root of the integral of |f|^p" % (p, what),
                          observed=v if is_num(v) else repr(v), expected=ref, extra={"p": p, "function": desc})
    v = ctx.call(pl.sup_norm)
    ref = P.sup_norm(fs)
    ctx.valid()
    ctx.outcome((what, round(float(v), 9) if is_num(v) else repr(v)))
    if not (is_num(v) and abs(float(v) - ref) <= 1e-12 * max(1.0, ref)):
        ctx.violation("sup-norm-%s" % what, "sup_norm of %s is not the largest absolute value" % what,
                      observed=v if is_num(v) else repr(v), expected=ref, extra={"function": desc})


def usable(pl):
    return True   # every grid landscape of a finite diagram is usable (also the identically zero one)


def run_case(case, ctx):
    kind = case["kind"]
    if kind == "exact-row":
        specs = lsops.exact_operand_specs(ctx.tier)
        sa = specs[case["i"]]
        A = lsops.build_exact(sa)
        check_norms(ctx, A, lsops.exact_ref(A), "exact", {"A": sa})
        if sa[0] == "dgm":
            # landscapes constructed with compute=False: the norm is the FIRST thing asked of the object
            # (a fresh object per question, the sweep has not run yet)
            from persim import PersLandscapeExact

            ref_fs = lsops.exact_ref(A)
            for first in ("sup", 1, 2, 3.5):
                Dl = PersLandscapeExact(dgms=[np.array(sa[1], dtype=float)], hom_deg=0, compute=False)
                v = ctx.call(Dl.sup_norm) if first == "sup" else ctx.call(Dl.p_norm, first)
                ref = P.sup_norm(ref_fs) if first == "sup" else P.p_norm(ref_fs, first)
                ctx.valid()
                ctx.nontriv("norm_of_deferred_landscape", key=("exact", first))
                if not (is_num(v) and abs(float(v) - ref) <= RTOL * max(ref, 1e-12)):
                    ctx.violation("norm-deferred-exact", "%s of a landscape built with compute=False is not the norm of the diagram's landscape"
                                  % ("sup_norm" if first == "sup" else "p_norm(%r)" % first), observed=v if is_num(v) else repr(v), expected=ref, extra={"A": sa})
        # scaled copies (abscissae and ordinates): every numeric scale, homogeneity in both directions;
        # p = 50 only where |f|^51 neither under- nor overflows in float64
        for s in SCALES:
            S = lsops.build_exact(("cp", [[[s * x, s * y] for x, y in depth] for depth in A.critical_pairs]))
            check_norms(ctx, S, lsops.exact_ref(S), "exact", {"A": sa, "scaled": s}, ps=PS if 1e-2 <= s <= 1e3 else PS[:-1])
            M = ctx.call(lambda: s * A)  # ordinates only
            check_norms(ctx, M, lsops.exact_ref(M), "exact", {"A": sa, "times": s}, ps=PS if 1e-2 <= s <= 1e3 else PS[:-1])
        # the same function with INTEGER critical values (Python ints / NumPy integers), larger ordinates and
        # large exponents: |y|^(p+1) must not be evaluated in integer arithmetic (it wraps around beyond 2^63)
        if sa[0] == "cp":
            from persim import PersLandscapeExact

            for mk, what in ((lambda v: int(v), "Python ints"), (lambda v: np.int64(v), "np.int64")):
                I = PersLandscapeExact(critical_pairs=[[[mk(2 * x), mk(3 * y)] for x, y in depth] for depth in sa[1]], hom_deg=0)
                check_norms(ctx, I, [P.make([(2 * float(x), 3 * float(y)) for x, y in depth]) for depth in sa[1]], "exact",
                            {"A": sa, "integer_critical_values": what, "scaled": [2, 3]}, ps=[1, 2, 7, 25, 40, 50, 100])
        for sb in specs:
            B = lsops.build_exact(sb)
            D = ctx.call(lambda: A - B)
            check_norms(ctx, D, lsops.exact_ref(D), "exact", {"A": sa, "B": sb, "op": "A-B"})
            E = ctx.call(lambda: 2 * A - B)
            check_norms(ctx, E, lsops.exact_ref(E), "exact", {"A": sa, "B": sb, "op": "2A-B"})
        if case["i"] % 9 == 0:
            # a whole range of exponents on a cover of operands and of one difference each
            sweep = list(range(1, 25)) + [1.0001, 1.25, 1.75, 2.0001, 3.5, 9.9, 33.3, 100, 150]
            Bs = lsops.build_exact(specs[(case["i"] * 7 + 3) % len(specs)])
            for obj in (A, ctx.call(lambda: A - Bs)):
                check_norms(ctx, obj, lsops.exact_ref(obj), "exact", {"A": sa, "p-sweep": True}, ps=sweep)
        Z = ctx.call(lambda: A - A)
        for p in PS:
            z = ctx.call(Z.p_norm, p)
            ctx.valid()
            if not (is_num(z) and abs(z) <= 1e-12):
                ctx.violation("p-norm-exact", "norm of P - P is not 0", observed=z if is_num(z) else repr(z), expected=0.0, extra={"A": sa, "p": p})
    elif kind == "approx-row":
        grid = lsops.GRIDS[case["grid"]]
        specs = lsops.approx_operand_specs(grid, ctx.tier)
        sa = specs[case["i"]]
        A = lsops.build_approx(sa, grid)
        if not usable(A):
            ctx.count("grid_operand_without_values")
            return
        check_norms(ctx, A, lsops.approx_ref(A), "grid", {"grid": grid, "A": sa})
        from persim import PersLandscapeApprox

        if sa[0] == "dgm":
            ref_fs = lsops.approx_ref(A)
            for first in ("sup", 1, 2, 3.5):
                Dl = PersLandscapeApprox(dgms=[np.array(sa[1], dtype=float)], hom_deg=0, start=grid[0], stop=grid[1], num_steps=grid[2], compute=False)
                v = ctx.call(Dl.sup_norm) if first == "sup" else ctx.call(Dl.p_norm, first)
                ref = P.sup_norm(ref_fs) if first == "sup" else P.p_norm(ref_fs, first)
                ctx.valid()
                ctx.nontriv("norm_of_deferred_landscape", key=("grid", first))
                if not (is_num(v) and abs(float(v) - ref) <= RTOL * max(ref, 1e-12)):
                    ctx.violation("norm-deferred-grid", "%s of a grid landscape built with compute=False is not the norm of the sampled landscape"
                                  % ("sup_norm" if first == "sup" else "p_norm(%r)" % first), observed=v if is_num(v) else repr(v), expected=ref, extra={"A": sa, "grid": grid})

        # other dtypes of the values array on a grid with non-integer nodes
        va = np.asarray(A.values, dtype=float)
        va0 = va
        for dt, kk in ((np.float32, 1), (np.int64, 1), (np.int32, 1), (np.int64, 30), (np.int64, 1000), (np.int16, 150), (np.float32, 1000)):
            if dt is not np.float32 and not np.all(va0 == np.round(va0)):
                continue
            if case["i"] % 3 and kk != 1:
                continue
            va = va0 * kk
            Gd = PersLandscapeApprox(values=va.astype(dt), start=0.5 * grid[0] + 0.25, stop=0.5 * grid[1] + 0.25, num_steps=grid[2], hom_deg=0)
            ref_fs = [P.make(list(zip(np.linspace(0.5 * grid[0] + 0.25, 0.5 * grid[1] + 0.25, grid[2]).tolist(), [float(v) for v in depth]))) for depth in va]
            ctx.state(("grid-dtype", str(np.dtype(dt)), kk, sa))
            for p in (1, 2, 3, 2.5, 7, 12, 50):
                v = ctx.call(Gd.p_norm, p)
                ref = P.p_norm(ref_fs, p)
                ctx.valid()
                tol = (1e-5 if dt is np.float32 else RTOL) * max(ref, 1e-6)
                if not (is_num(v) and np.isfinite(v) and abs(float(v) - ref) <= tol):
                    ctx.violation("p-norm-grid", "p_norm(p=%r) of a grid landscape with %s values (x%d) is not the integral" % (p, np.dtype(dt), kk),
                                  observed=v if is_num(v) else repr(v), expected=ref, extra={"grid": grid, "A": sa, "dtype": str(np.dtype(dt)), "times": kk})
            for c_ in (3, 3.0):
                vs = ctx.call(lambda: (c_ * Gd).p_norm(2))
                ctx.valid()
                if not (is_num(vs) and abs(float(vs) - 3.0 * P.p_norm(ref_fs, 2)) <= 1e-5 * max(1e-6, 3.0 * P.p_norm(ref_fs, 2))):
                    ctx.violation("p-norm-grid", "homogeneity fails for %r * P with %s values" % (c_, np.dtype(dt)), observed=vs if is_num(vs) else repr(vs),
                                  expected=3.0 * P.p_norm(ref_fs, 2), extra={"grid": grid, "A": sa})
        va = va0
        for s in SCALES:
            G = PersLandscapeApprox(values=s * np.asarray(A.values, dtype=float), start=s * grid[0], stop=s * grid[1], num_steps=grid[2], hom_deg=0)
            check_norms(ctx, G, lsops.approx_ref(G), "grid", {"grid": grid, "A": sa, "scaled": s}, ps=PS if 1e-2 <= s <= 1e3 else PS[:-1])
        partners = specs if grid[2] == 3 else specs[:: max(1, len(specs) // 12)]
        for sb in partners:
            B = lsops.build_approx(sb, grid)
            if not usable(B):
                continue
            D = ctx.call(lambda: A - B)
            check_norms(ctx, D, lsops.approx_ref(D), "grid", {"grid": grid, "A": sa, "B": sb, "op": "A-B"})
            E = ctx.call(lambda: 2 * A - B)
            check_norms(ctx, E, lsops.approx_ref(E), "grid", {"grid": grid, "A": sa, "B": sb, "op": "2A-B"})
    elif kind == "p-types":
        # the exponent given as a NumPy scalar of a narrow type (p + 1 must not wrap, p must not lose digits)
        from persim import PersLandscapeApprox, PersLandscapeExact

        E = PersLandscapeExact(dgms=[np.array([[0.0, 6.0], [1.0, 4.0], [2.0, 7.0]])], hom_deg=0)
        G = PersLandscapeApprox(values=np.array([[0.0, 1.0, 2.5, 1.0, 0.0], [0.0, 0.0, 1.0, 0.0, 0.0]]), start=0.0, stop=4.0, num_steps=5, hom_deg=0)
        for pl, what, fs in ((E, "exact", lsops.exact_ref(E)), (G, "grid", lsops.approx_ref(G))):
            for pv in (np.int8(127), np.int8(3), np.uint8(2), np.float16(3.0), np.float32(2.5), np.int64(4)):
                ctx.state(("p-type", what, repr(pv)))
                v = ctx.call(pl.p_norm, pv)
                ref = P.p_norm(fs, float(pv))
                ctx.valid()
                if not (is_num(v) and np.isfinite(v) and abs(float(v) - ref) <= 1e-9 * ref):
                    ctx.violation("p-norm-%s" % what, "p_norm(p=%r) is not the p-th root of the integral of |f|^p" % (pv,), observed=v if is_num(v) else repr(v), expected=ref, extra={"p": repr(pv)})
        ctx.nontriv("exponent_as_numpy_scalar")
    elif kind == "far-grid":
        # grid landscapes far from the origin relative to their node spacing (timestamp-like filtration values):
        # the nodes np.linspace produces are not equally spaced to the last bit; the norm is the integral over
        # THOSE nodes (exact rational reference), relative 1e-9
        from persim import PersLandscapeApprox

        for (st, sp, n) in ((1.7e9, 1.7e9 + 3.3, 500), (1e6, 1e6 + 1.0, 20001), (-2.5e8, -2.5e8 + 7.0, 1001), (1e9, 1e9 + 1.0, 300)):
            xs = np.linspace(st, sp, n)
            u = (xs - st) / (sp - st)
            vals = np.array([np.maximum(0.0, np.minimum(u, 1 - u)) * 2.0, np.maximum(0.0, 0.5 - np.abs(u - 0.3)) - 0.1 * (u > 0.8)])
            G = PersLandscapeApprox(values=vals, start=st, stop=sp, num_steps=n, hom_deg=0)
            fs = [P.make(list(zip(xs.tolist(), [float(v) for v in row]))) for row in vals]
            ctx.state(("far-grid", st, sp, n))
            for p_ in (1, 2, 3, 2.5):
                v = ctx.call(G.p_norm, p_)
                ref = P.p_norm(fs, p_)
                ctx.valid()
                if not (is_num(v) and np.isfinite(v) and abs(float(v) - ref) <= 1e-9 * ref):
                    ctx.violation("p-norm-grid", "p_norm(p=%r) of a grid landscape on [%r, %r] with %d nodes is not the integral over its nodes" % (p_, st, sp, n),
                                  observed=v if is_num(v) else repr(v), expected=ref, extra={"start": st, "stop": sp, "num_steps": n})
        ctx.nontriv("grid_far_from_origin")
    elif kind == "long":
        from persim import PersLandscapeApprox, PersLandscapeExact

        D1 = medium_diagram(case["n"], case["k"], case["lattice"])
        D2 = medium_diagram(case["n"], case["k"] + 1, case["lattice"])
        A = PersLandscapeExact(dgms=[np.array(D1)], hom_deg=0)
        B = PersLandscapeExact(dgms=[np.array(D2)], hom_deg=0)
        desc = {"A": "medium_diagram(%d,%d,%r)" % (case["n"], case["k"], case["lattice"]), "B": "medium_diagram(%d,%d,%r)" % (case["n"], case["k"] + 1, case["lattice"])}
        for what, pl in (("A", A), ("A-B", ctx.call(lambda: A - B)), ("2A-3B", ctx.call(lambda: 2 * A - 3 * B))):
            check_norms(ctx, pl, lsops.exact_ref(pl), "exact", dict(desc, op=what), ps=PS[:-1])
        GA = PersLandscapeApprox(dgms=[np.array(D1)], hom_deg=0, start=0.0, stop=21.0, num_steps=64)
        GB = PersLandscapeApprox(dgms=[np.array(D2)], hom_deg=0, start=0.0, stop=21.0, num_steps=64)
        Gd = ctx.call(lambda: GA - GB)
        check_norms(ctx, Gd, lsops.approx_ref(Gd), "grid", dict(desc, op="grid A-B"), ps=PS[:-1])
    else:
        stability_row(case, ctx)


def definition_ok(pl, D):
    """Does the exact landscape agree with the k-th-largest-tent definition (C03's subject)?"""
    pts = OL.breakpoints(D)
    for k in range(1, len(D) + 2):
        f = P.make(pl.critical_pairs[k - 1]) if k <= len(pl.critical_pairs) else []
        for t in pts:
            if P.ev(f, t) != OL.kth_tent(D, t, k):
                return False
    return True


def stability_row(case, ctx):
    import persim
    from persim import PersLandscapeExact

    n = case["n"]
    dg = [[list(map(float, b)) for b in m] for m in multisets_upto(bars(4), n, min_size=1)]
    D1 = dg[case["i"]]
    L1 = PersLandscapeExact(dgms=[np.array(D1)], hom_deg=0)
    ok1 = definition_ok(L1, D1)
    for D2 in dg:
        L2 = PersLandscapeExact(dgms=[np.array(D2)], hom_deg=0)
        if not (ok1 and definition_ok(L2, D2)):
            ctx.count("stability_pairs_skipped_landscape_differs_from_definition")
            continue
        diff = ctx.call(lambda: L1 - L2)
        s = ctx.call(diff.sup_norm)
        b, _ = call_warn(ctx, persim.bottleneck, np.array(D1), np.array(D2))
        ctx.valid()
        ctx.state(("stab", D1, D2))
        if D1 != D2 and abs(s - b) <= 1e-12:
            ctx.nontriv("stability_bound_tight", key=("stab", D1, D2))
        if not (is_num(s) and s <= b + 1e-12):
            ctx.violation("stability", "sup-norm of the landscape difference exceeds the bottleneck distance",
                          observed=s, expected="<= %r" % b, extra={"D1": D1, "D2": D2})
