"""C18 — transformers: fit+transform == fit_transform, and refits forget the past (explorer B)."""
import numpy as np

from mc import history

PROPERTY = "C18"
RULE = (
    "BFS to fixpoint (depth 3) and, for 3 estimators, the FULL tree of 4-call histories over a reduced alphabet, over histories of fit(D)/transform(D)/fit_transform(D) (3-4 data sets each, one collection holding the same array object several times) on REAL "
    "estimators: PersistenceImager() / (pixel_size=0.5) / user kernel; PersistenceLandscaper(num_steps=5) "
    "with none / start / stop / both fixed by the user, and (flatten=True, hom_deg=1); histories also contain a second live estimator of the same class being constructed and fitted in between; landscaper histories also contain the user fixing / releasing a grid bound after construction (attribute assignment, set_params) and continuing with a scikit-learn clone of the estimator. Every transition "
    "is compared with a fresh estimator replaying the same history: transform repeatable and state-"
    "preserving; fit_transform == fit;transform (output and post-state); imager maps collections element "
    "by element; after any history ending in fit(D) the learned attributes equal those of fit(D) on a "
    "fresh estimator (differential oracle) and user-fixed parameters are untouched. state = public "
    "attributes of the estimator; transition = one real estimator call; non-trivial = a fit that follows "
    "an earlier fit on different data."
)
ASSUMPTIONS = [
    "learned state is read from public attributes (imager: ranges/width/height/resolution; landscaper: start/stop)",
    "floats compared to 1e-9, resolutions and shapes exactly",
]

IMG_DATA = {
    "I1": [[[0.0, 1.0], [0.5, 1.2]]],
    "I2": [[[0.0, 2.0], [1.0, 1.5]], [[-0.25, 0.5], [0.75, 1.0]]],
    "I3": [[[0.1, 0.4]], [[0.3, 1.0], [0.2, 0.9], [0.2, 0.9]], [[0.0, 3.0], [2.0, 2.5]]],
    # a collection in which the SAME array object occurs several times (bootstrap resample, [d] * 3)
    # a collection of 7 diagrams of different sizes (batching / chunking paths)
    "I7": [[[0.1, 0.4]], [[0.3, 1.0], [0.2, 0.9]], [[0.0, 2.0], [1.0, 1.5], [0.5, 0.75]], [[0.25, 0.5]], [[0.0, 3.0], [2.0, 2.5]],
           [[1.0, 1.25], [1.5, 2.75], [0.0, 0.5], [0.75, 1.0]], [[0.6, 2.2]]],
    "I4": {"diagrams": [[[0.5, 1.5], [1.0, 1.25]], [[0.25, 2.0]]], "pattern": [0, 1, 0, 0]},
    # a collection containing an EMPTY diagram (a (0,2) array): it has no pairs to enclose and an all-zero image
    "I8": [[[0.2, 0.7], [0.4, 1.9]], [], [[0.0, 1.0]]],
    # several empty diagrams, at the front and between non-empty ones
    "I9": [[], [], [[0.2, 0.7]], [], [[0.0, 1.0], [0.5, 0.8]]],
    # collections that are not lists: a 3-D array stacking equal-sized diagrams, a tuple, and a sequence that
    # builds its items on demand (each item exists only while it is being used)
    "I10": {"container": "stack", "diagrams": [[[0.1, 0.4], [0.2, 0.9]], [[0.3, 1.0], [0.2, 0.5]], [[0.0, 2.0], [1.0, 1.5]], [[0.25, 0.5], [0.6, 0.7]], [[0.4, 1.1], [0.0, 0.3]]]},
    "I11": {"container": "lazy", "diagrams": [[[0.1, 0.4], [0.2, 0.9]], [[0.3, 1.0]], [[0.0, 2.0], [1.0, 1.5], [0.5, 0.6]], [[0.25, 0.5]], [[0.4, 1.1], [0.0, 0.3]]]},
    "I12": {"container": "tuple", "diagrams": [[[0.1, 0.4]], [[0.3, 1.0], [0.2, 0.5]], [[0.0, 2.0]]]},
}


class LazyDiagrams:
    """A read-only sequence whose items are created when asked for (and die when the caller drops them)."""

    def __init__(self, rows):
        self._rows = rows

    def __len__(self):
        return len(self._rows)

    def __getitem__(self, i):
        if isinstance(i, slice):
            return [np.array(r, dtype=float) for r in self._rows[i]]
        return np.array(self._rows[i], dtype=float)

    def __iter__(self):
        for r in self._rows:
            yield np.array(r, dtype=float)


def is_collection(d):
    return isinstance(d, (list, tuple, LazyDiagrams)) or (isinstance(d, np.ndarray) and d.ndim == 3)
THOROUGH_ONLY = {"I5", "I6", "L4", "L5"}
TIER = "quick"
IMG_DATA.update({
    "I5": [[[1000.0, 1000.5], [1000.25, 1002.0]], [[999.0, 1001.0]]],
    "I6": [[[0.0, 0.05]], [[0.01, 0.02], [0.0, 0.03]], [[0.02, 0.07]], [[0.0, 0.01]]],
})
LS_DATA = {
    "L1": [[[0.0, 3.0], [1.0, 4.0]], [[1.0, 4.0]]],
    "L2": [[[10.0, 14.0], [11.0, 12.0]], [[10.5, 13.0]]],
    "L3": [[[2.0, 2.5], [-1.0, 0.5], [0.0, 6.0]], [[-1.0, 7.0], [0.0, 1.0]]],
    "L4": [[[0.0, 0.0625], [0.03125, 0.125]], [[0.0, 0.25]]],
    "L5": [[[-8.0, -2.0], [-6.0, -5.0], [-7.0, -1.0]], [[-4.0, -3.0], [-8.0, -6.0]]],
}


def box_kernel(x, y, mu=None, w=0.5):
    from persim import images_kernels

    return images_kernels.uniform(x, y, mu=mu, width=w, height=2 * w)


def estimators(tier):
    if tier == "quick":
        return ESTIMATORS
    return ESTIMATORS + [
        {"cls": "imager", "kw": {"pixel_size": 0.07}},
        {"cls": "imager", "kw": {"pixel_size": 1.0, "kernel_params": {"sigma": [[0.5, 0.3], [0.3, 0.4]]}}},
        {"cls": "landscaper", "kw": {"num_steps": 11, "start": 0.5}},
        {"cls": "landscaper", "kw": {"num_steps": 4, "stop": -1.5, "hom_deg": 1}},
        {"cls": "landscaper", "kw": {"num_steps": 9, "flatten": True}},
    ]


ESTIMATORS = [
    {"cls": "imager", "kw": {}},
    {"cls": "imager", "kw": {"pixel_size": 0.5}},
    {"cls": "imager", "kw": {"pixel_size": 0.3, "kernel": "box", "kernel_params": {"w": 0.5}}},
    # isotropic Gaussian kernels with a variance other than 1, as a matrix and as a scalar
    {"cls": "imager", "kw": {"pixel_size": 0.5, "kernel_params": {"sigma": [[0.25, 0.0], [0.0, 0.25]]}}},
    {"cls": "imager", "kw": {"pixel_size": 0.4, "kernel_params": {"sigma": 0.09}}},
    {"cls": "landscaper", "kw": {"num_steps": 5}},
    {"cls": "landscaper", "kw": {"num_steps": 5, "start": 0.0}},
    {"cls": "landscaper", "kw": {"num_steps": 6, "stop": 6.0}},
    {"cls": "landscaper", "kw": {"num_steps": 5, "start": -1.0, "stop": 15.0}},
    {"cls": "landscaper", "kw": {"num_steps": 7, "flatten": True, "hom_deg": 1}},
]


def bounds(tier):
    return {"estimators": len(estimators(tier)), "ops_per_estimator": "3 x data sets (imager 4 incl. an aliased collection, landscaper 3)", "depth": 3 if tier == "quick" else 4}


def make(init):
    import persim

    kw = dict(init["kw"])
    if init["cls"] == "imager":
        if kw.get("kernel") == "box":
            kw["kernel"] = box_kernel
        return persim.PersistenceImager(**kw)
    return persim.PersistenceLandscaper(**kw)


def data_for(init, key):
    if init["cls"] == "imager":
        spec = IMG_DATA[key]
        if isinstance(spec, dict) and "container" in spec:
            if spec["container"] == "stack":
                return np.array(spec["diagrams"], dtype=float)
            if spec["container"] == "lazy":
                return LazyDiagrams(spec["diagrams"])
            return tuple(np.array(x, dtype=float) for x in spec["diagrams"])
        if isinstance(spec, dict):
            base = [np.array(x, dtype=float) for x in spec["diagrams"]]
            return [base[i] for i in spec["pattern"]]
        d = [np.array(x, dtype=float).reshape(-1, 2) for x in spec]
        return d[0] if len(d) == 1 else d
    return [np.array(x, dtype=float) for x in LS_DATA[key]]


def ops_for(init):
    keys = [k for k in (IMG_DATA if init["cls"] == "imager" else LS_DATA) if TIER == "thorough" or k not in THOROUGH_ONLY]
    ops = [[op, k] for op in ("fit", "transform", "fit_transform") for k in keys]
    if init["cls"] == "imager":
        # the same protocol in pre-converted birth-persistence form (skew=False)
        ops += [[op, "I2", "noskew"] for op in ("fit", "transform", "fit_transform")]
    ops += [["other", "plain"], ["other", "fixed"]]
    if init["cls"] == "imager":
        pass
    else:
        # the user fixes (or releases, None) a grid bound AFTER construction, by attribute assignment or
        # through scikit-learn's set_params: from then on it is a parameter "the user fixed explicitly"
        ops += [["set", "start", -1.0], ["set", "stop", 20.0], ["set_params", "start", -2.5], ["set", "stop", None]]
        # scikit-learn's clone (what cross_val_score / GridSearchCV do with an estimator they are handed): the
        # exploration continues with the clone, which has the user's parameters and nothing learned
        ops += [["clone"]]
    return ops


_BYSTANDERS = []          # second estimators kept alive while the explored one is used


def bystander(ctx, init, op):
    """A SECOND estimator of the same class is constructed (with other user-fixed parameters), fitted and kept
    alive: it must not influence the estimator under exploration (state shared at class / module level)."""
    kw = dict(init["kw"])
    if init["cls"] == "landscaper":
        kw.update({"start": -7.0} if op[1] == "fixed" else {})
    else:
        kw.update({"pixel_size": 0.25} if op[1] == "fixed" else {})
    other = make({"cls": init["cls"], "kw": kw})
    keys = [k for k in (IMG_DATA if init["cls"] == "imager" else LS_DATA) if k not in THOROUGH_ONLY]
    other.fit(data_for(init, keys[-1] if init["cls"] == "landscaper" else keys[1]))
    if init["cls"] == "landscaper":
        other.stop = 33.0
    del _BYSTANDERS[:-3]
    _BYSTANDERS.append(other)


def user_kw(init, ops):
    """Constructor keywords + what the user assigned later (reference model of the user-fixed parameters)."""
    kw = dict(init["kw"])
    for op in ops:
        if op[0] in ("set", "set_params"):
            kw[op[1]] = op[2]
    return kw


def pub(init, est):
    """Public state: learned + user-fixed attributes."""
    if init["cls"] == "imager":
        return {
            "birth_range": [float(x) for x in est.birth_range], "pers_range": [float(x) for x in est.pers_range],
            "width": float(est.width), "height": float(est.height), "resolution": [int(x) for x in est.resolution],
            "pixel_size": float(est.pixel_size), "weight": getattr(est.weight, "__name__", repr(est.weight)),
            "kernel": getattr(est.kernel, "__name__", repr(est.kernel)),
            "weight_params": repr(est.weight_params), "kernel_params": repr(est.kernel_params),
        }
    f = lambda v: None if v is None else float(v)  # noqa: E731
    return {"start": f(est.start), "stop": f(est.stop), "num_steps": int(est.num_steps),
            "hom_deg": int(est.hom_deg), "flatten": bool(est.flatten)}


USER_FIXED = {"imager": ["pixel_size", "weight", "kernel", "weight_params", "kernel_params"],
              "landscaper": ["num_steps", "hom_deg", "flatten"]}


def close_state(a, b):
    if a.keys() != b.keys():
        return False
    for k in a:
        x, y = a[k], b[k]
        if isinstance(x, float) and isinstance(y, float):
            if abs(x - y) > 1e-9 * max(1.0, abs(x)):
                return False
        elif isinstance(x, list) and x and isinstance(x[0], float):
            if len(x) != len(y) or any(abs(p - q) > 1e-9 * max(1.0, abs(p)) for p, q in zip(x, y)):
                return False
        elif x != y:
            return False
    return True


def norm_out(o):
    """Outputs as a list of arrays (a collection result) or a single array."""
    if isinstance(o, list):
        return [np.asarray(x) for x in o]
    return np.asarray(o)


def same_out(a, b):
    a, b = norm_out(a), norm_out(b)
    if isinstance(a, list) != isinstance(b, list):
        return False
    if isinstance(a, list):
        return len(a) == len(b) and all(same_out(x, y) for x, y in zip(a, b))
    if a.shape != b.shape or a.dtype.kind != b.dtype.kind:
        return False
    if a.dtype.kind in "fiu":
        return bool(np.allclose(a, b, rtol=1e-12, atol=1e-15, equal_nan=True))
    return bool(np.array_equal(a, b))


def out_digest(o):
    o = norm_out(o)
    if isinstance(o, list):
        return [out_digest(x) for x in o]
    if o.dtype.kind in "fiu":
        return [list(o.shape), float(np.round(o.sum(), 9)), float(np.round(np.abs(o).max(), 9)) if o.size else 0.0]
    return [list(o.shape), o.tolist()]


def do(ctx, est, init, op, count=True):
    if op[0] == "other":
        bystander(ctx, init, op)
        return None
    if op[0] == "set":
        setattr(est, op[1], op[2])
        return None
    if op[0] == "set_params":
        est.set_params(**{op[1]: op[2]})
        return None
    if op[0] == "clone":
        from sklearn.base import clone

        c = clone(est)
        est.__dict__.clear()
        est.__dict__.update(c.__dict__)      # the same Python object now IS the clone
        return None
    d = data_for(init, op[1])
    if count:
        ctx.trans()
    if len(op) > 2:
        return getattr(est, op[0])(d, skew=False)
    return getattr(est, op[0])(d)


def replay(ctx, init, ops):
    est = make(init)
    for op in ops:
        do(ctx, est, init, op, count=False)
    return est


def learned_after_fit_fresh(ctx, init, op, ops=()):
    fresh = make({"cls": init["cls"], "kw": user_kw(init, ops)})
    do(ctx, fresh, init, ["fit"] + list(op[1:]), count=False)
    return pub(init, fresh)


def run_history(case, ctx):
    init, ops = case["init"], case["ops"]
    est = make(init)
    initial = pub(init, est)
    cls = init["cls"]
    bad = lambda sig, msg, o=None, e=None: ctx.violation("%s-%s" % (cls, sig), msg, observed=o, expected=e)  # noqa: E731
    for n, op in enumerate(ops):
        last = n == len(ops) - 1
        if not last:
            do(ctx, est, init, op, count=False)
            continue
        pre = pub(init, est)
        out = do(ctx, est, init, op)
        post = pub(init, est)
        ctx.valid()
        # user-fixed parameters are never overwritten
        for k in USER_FIXED[cls]:
            if post[k] != initial[k]:
                bad("user-param-overwritten", "%s changed a parameter the user fixed: %s" % (op[0], k), post[k], initial[k])
        if cls == "landscaper":
            ukw = user_kw(init, ops)
            for k in ("start", "stop"):
                if ukw.get(k) is not None and post[k] != float(ukw[k]):
                    bad("user-param-overwritten", "%s changed the user-fixed %s" % (op[0], k), post[k], ukw[k])
        if op[0] == "other":
            ctx.valid()
            if not close_state(pre, post) or pre != post:
                bad("other-object-interferes", "constructing / fitting ANOTHER estimator changed this estimator's state", post, pre)
            continue
        if op[0] in ("set", "set_params", "clone"):
            continue
        if op[0] == "transform":
            # repeatable, does not alter the fitted state
            ctx.valid(2)
            if not close_state(pre, post) or pre != post:
                bad("transform-alters-state", "transform changed the estimator's state", post, pre)
            out2 = do(ctx, est, init, op)
            if not same_out(out, out2):
                bad("transform-not-repeatable", "two transform calls on the same data differ", out_digest(out2), out_digest(out))
            if cls == "imager":
                d = data_for(init, op[1])
                # the same collection / diagram through the joblib path (n_jobs given; in-process for 1)
                outp = est.transform(d, skew=False, n_jobs=1) if len(op) > 2 else est.transform(d, n_jobs=1)
                ctx.trans()
                ctx.valid()
                if not same_out(out, outp):
                    bad("transform-n_jobs", "transform(D, n_jobs=1) differs from transform(D)", out_digest(outp), out_digest(out))
                if is_collection(d):
                    ctx.valid()
                    if not isinstance(out, list) or len(out) != len(d):
                        bad("collection-shape", "transform of a collection does not return one image per diagram", out_digest(out))
                    else:
                        for i, di in enumerate(d):
                            oi = est.transform(di, skew=False) if len(op) > 2 else est.transform(di)
                            ctx.trans()
                            if not same_out(out[i], oi):
                                bad("collection-order", "image %d of the collection differs from transform(diagram %d)" % (i, i),
                                    out_digest(out[i]), out_digest(oi))
                                break
                else:
                    ctx.valid()
                    if np.asarray(out).shape != tuple(post["resolution"]):
                        bad("image-shape", "image shape differs from the resolution", list(np.asarray(out).shape), post["resolution"])
        if op[0] in ("fit", "fit_transform"):
            # differential oracle: what a fit learns depends only on the last fit's data
            want = learned_after_fit_fresh(ctx, init, op, ops)
            ctx.valid()
            if any(o[0] in ("fit", "fit_transform") and o[1:] != op[1:] for o in ops[:-1]):
                ctx.nontriv("refit_on_different_data")
            if not close_state(post, want):
                bad("refit-remembers-past", "state after %r differs from a fresh estimator fitted on the same data" % (ops,), post, want)
        if op[0] == "fit_transform":
            twin = replay(ctx, init, ops[:-1])
            do(ctx, twin, init, ["fit"] + list(op[1:]), count=False)
            o2 = do(ctx, twin, init, ["transform"] + list(op[1:]), count=False)
            ctx.valid(2)
            if not same_out(out, o2):
                bad("fit_transform-output", "fit_transform(D) differs from fit(D); transform(D)", out_digest(out), out_digest(o2))
            if not close_state(post, pub(init, twin)):
                bad("fit_transform-state", "state after fit_transform(D) differs from fit(D); transform(D)", post, pub(init, twin))
        if op[0] != "fit":
            ctx.outcome((cls, out_digest(out)))
    st = pub(init, est)
    # which grid bounds the USER has fixed so far is part of the state (a bound learned by fit and a bound of the
    # same value assigned by the user look alike in the public attributes but must behave differently at the next fit)
    fixed = sorted(k for k in ("start", "stop") if user_kw(init, ops).get(k) is not None) if init["cls"] == "landscaper" else []
    # a history in which ANOTHER estimator was created is explored further on its own (it reaches the same
    # public state by construction; whether the futures agree is exactly what is to be found out)
    n_other = min(2, sum(1 for o in ops if o[0] == "other"))
    # likewise a history that went through a clone: by the reference model the clone is in the state of a fresh
    # estimator with the user's parameters, whether its future agrees is what is to be found out
    n_clone = min(1, sum(1 for o in ops if o[0] == "clone"))
    return (init["cls"], repr(sorted(init["kw"].items(), key=str)), repr(sorted(st.items())), repr(fixed), n_other, n_clone)


def run_case(case, ctx):
    for n in range(len(case["ops"]) + 1):
        run_history({"init": case["init"], "ops": case["ops"][:n]}, ctx)


class _M:
    DETERMINISTIC = True
    run_case = staticmethod(run_case)


def run_shard(ctx):
    global TIER
    TIER = ctx.tier
    depth = 3 if ctx.tier == "quick" else 4
    # shard = (estimator, first operation): the BFS below a first operation is independent of the others
    ests = estimators(ctx.tier)
    jobs = [(e, f) for e in range(len(ests)) for f in range(len(ops_for(ests[e])))]
    for jx, (e, f) in enumerate(jobs):
        if jx % ctx.nshards != ctx.shard:
            continue
        init = ests[e]
        ops = ops_for(init)
        first = ops[f]
        if f == 0:
            ctx.run_case(_M, {"init": init, "ops": []}, fn=lambda c, cx: run_history(c, cx))
        history.bfs(ctx, _M, [init], ops, depth - 1, run_history, prefix=[first])
        # full tree (no de-duplication) of 4-call (thorough 5-call) histories over a reduced alphabet:
        # behaviour that depends on the NUMBER or ORDER of earlier calls cannot hide behind a repeated state
        if e in (0, 5, 6):
            keys = ["I1", "I7"] if init["cls"] == "imager" else ["L1", "L2"]
            red = [[op, k] for op in ("fit", "transform", "fit_transform") for k in keys]
            if first in red:
                history.bfs(ctx, _M, [init], red, (3 if ctx.tier == "quick" else 4), run_history, prefix=[first], diff_continuation=False, dedup=False)
