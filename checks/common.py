"""Helpers shared by the checks: diagram containers, affine variants, warning capture."""
import itertools
import warnings

import numpy as np

from mc.enumerate import lattice_points, multisets_upto, distinct_permutations  # noqa: F401

INF = float("inf")

# value transformations x -> a*x + c*(1,1) applied to BOTH diagrams (DESIGN.md section 4, "Aff")
AFF = [(1.0, 0.0), (0.1, 0.0), (1e6, 0.0), (1.0, -3.7), (1.0 / 3.0, 1e3), (1.0 / 3.0, 1048576.0), (1.0, -2.0), (1e-13, 0.0)]


def aff(D, a, c):
    return [[a * float(p[0]) + c, a * float(p[1]) + c] for p in D]


def farr(D):
    """(n,2) float array, also for the empty diagram."""
    return np.array(D, dtype=float).reshape(-1, 2)


def iarr(D):
    return np.array(D, dtype=int).reshape(-1, 2)


def scale_of(*Ds):
    """largest |coordinate| (no floor: tolerances must shrink with the diagram's own scale)"""
    m = 1e-300
    for D in Ds:
        for p in D:
            for x in p[:2]:
                if np.isfinite(x):
                    m = max(m, abs(float(x)))
    return m


def call_warn(ctx, fn, *a, **kw):
    """Call a persim entry point, return (result, number of warnings raised)."""
    with warnings.catch_warnings(record=True) as w:
        warnings.simplefilter("always")
        r = ctx.call(fn, *a, **kw)
    n = WarnCount(len(w))
    n.messages = [str(x.message) for x in w]
    return r, n


class WarnCount(int):
    """Number of warnings, with their texts in .messages."""

    messages = ()

    def claims_nonfinite(self):
        return [m for m in self.messages if "non-finite" in m or "infinite" in m.lower()]


def pair_cases(alphabet, n):
    ms = [list(map(list, m)) for m in multisets_upto(alphabet, n)]
    for S in ms:
        for T in ms:
            yield {"S": S, "T": T}


def is_num(x):
    return isinstance(x, (int, float, np.integer, np.floating)) and not isinstance(x, bool)


def medium_diagram(n, k, lattice):
    """Deterministic medium-size diagrams (Weyl sequence); `lattice` rounds to half-integers (many ties)."""
    import math

    phi = (math.sqrt(5.0) - 1.0) / 2.0
    s2 = math.sqrt(2.0) - 1.0
    pts = []
    for i in range(1, n + 1):
        b = (((i + 11 * k) * phi) % 1.0) * 12.0
        p = (((i + 7 * k) * s2) % 1.0) * 8.0 + 0.25
        if lattice:
            b, p = round(b * 2) / 2.0, max(0.5, round(p * 2) / 2.0)
        pts.append([b, b + p])
    return pts


