"""C13 — Gaussian / uniform kernels are valid, accurate CDFs (explorer A over configurations)."""
import itertools
import math

import numpy as np

from oracles.bvn import phi, phi2, uniform_cdf

CALL_VARIANTS = True   # every whitelisted persim call is repeated with its arrays in another memory layout (mc/ctx.py)
PROPERTY = "C13"
RULE = (
    "configurations = means x variance pairs (1e-8..1e2, thorough 1e-12..1e8) x correlations (both sides of every branch threshold "
    "0.3/0.75/0.925, up to |r|=0.99999) x entry points (gaussian, bvn_cdf, sbvn_cdf, norm_cdf, uniform); "
    "each evaluated on the full 17x17 grid of standardised points {-1000,-200,-40,-8..8,40,200,1000}^2 (far tails included) plus 300 points on the tail shoulders (3..7 sigma in fine steps x 5 partner values, both axes) and compared point by "
    "point with Plackett's-formula reference; CDF axioms (range, monotone, rectangle mass, tails) on "
    "every grid cell. state = one configuration; transition = one kernel call; non-trivial = "
    "correlated configuration (r != 0) or uniform box cut by the grid."
)
ASSUMPTIONS = ["reference: Plackett integral by scipy.integrate.quad (oracles/bvn.py), accuracy ~1e-13"]
H_Q = [-1000.0, -200.0, -40.0, -8.0, -4.0, -2.0, -1.0, -0.5, 0.0, 0.3, 1.0, 2.0, 4.0, 8.0, 40.0, 200.0, 1000.0]
H_T = [-1e5, -1000.0, -300.0, -100.0, -40.0, -12.0, -8.0, -6.0, -4.0, -3.0, -2.0, -1.5, -1.0, -0.5, -0.1, 0.0, 0.1, 0.3, 0.7, 1.0, 1.5, 2.0, 3.0, 4.0, 6.0, 8.0, 12.0, 40.0, 100.0, 300.0, 1000.0, 1e5]
H = H_Q
RS_POS = [1e-7, 1e-6, 1e-5, 1e-4, 1e-3, 1e-2, 0.1, 0.29, 0.3, 0.31, 0.5, 0.74, 0.75, 0.76, 0.9, 0.92, 0.925, 0.93, 0.95, 0.99, 0.999, 0.99999]
TOL = 1e-7
TAILS = [3.0, 3.5, 4.0, 4.25, 4.5, 4.75, 5.0, 5.02, 5.1, 5.19, 5.3, 5.6, 6.0, 6.5, 7.0]
TAIL_PARTNERS = [-2.0, -0.5, 0.0, 1.0, 3.0]


def configs(tier):
    means = [(0.0, 0.0), (1.5, -2.0)]
    vars_ = [1e-8, 1e-4, 0.01, 1.0, 100.0, 1e8] if tier == "quick" else [1e-12, 1e-8, 1e-4, 0.01, 1.0, 100.0, 1e8]
    vpairs = list(itertools.product(vars_, vars_))
    if tier == "quick":
        rs = [0.0] + [s * r for r in RS_POS for s in (1, -1)]
    else:
        rs = [0.0] + [s * r for r in RS_POS + [0.01, 0.2999, 0.7499, 0.9249, 0.9251, 0.97, 0.9999, 0.9999999] for s in (1, -1)]
    for mu in means:
        for vp in vpairs:
            for r in rs:
                yield {"kind": "gauss", "mu": list(mu), "var": list(vp), "r": r, "grid": "T" if tier == "thorough" else "Q"}
    # uniform boxes on a lattice
    for mu in [(0.0, 0.0), (1.5, -2.0)]:
        for w, h in [(1.0, 1.0), (2.0, 0.5), (0.25, 3.0)]:
            yield {"kind": "uniform", "mu": list(mu), "w": w, "h": h}
    yield {"kind": "norm"}


def cases(tier):
    return configs(tier)


def bounds(tier):
    return {"grid": H_T if tier == "thorough" else H_Q, "n_configs": sum(1 for _ in configs(tier)), "tol": TOL}


def axioms(ctx, F, case, sig_prefix=""):
    """CDF axioms on an 11x11 grid of values F[i,j] (i: first argument increasing)."""
    bad = lambda s, m, o=None, e=None: ctx.violation(sig_prefix + s, m, observed=o, expected=e)  # noqa: E731
    ctx.valid(4)
    if not np.all(np.isfinite(F)):
        return bad("not-finite", "kernel value is NaN/inf", F.tolist())
    if F.min() < -1e-12 or F.max() > 1 + 1e-12:
        bad("range", "CDF value outside [0,1]", [float(F.min()), float(F.max())])
    d0 = np.diff(F, axis=0)
    d1 = np.diff(F, axis=1)
    if d0.min() < -1e-12 or d1.min() < -1e-12:
        bad("monotone", "CDF decreases along an axis", [float(d0.min()), float(d1.min())])
    rect = F[1:, 1:] - F[:-1, 1:] - F[1:, :-1] + F[:-1, :-1]
    if rect.min() < -1e-12:
        i, j = np.unravel_index(np.argmin(rect), rect.shape)
        bad("rectangle-mass", "negative mass on a grid rectangle", float(rect.min()), {"cell": [int(i), int(j)]})
    # whole-grid rectangles too (inclusion-exclusion over far corners)
    if F[0, :].max() > 1e-12 or F[:, 0].max() > 1e-12:
        bad("lower-tail", "CDF does not vanish at -8 sigma", [float(F[0, :].max()), float(F[:, 0].max())])
    if F[-1, -1] < 1 - 1e-12:
        bad("upper-tail", "CDF does not reach 1 at (+8 sigma, +8 sigma)", float(F[-1, -1]))


def run_case(case, ctx):
    from persim import images_kernels as ik

    ctx.state(case)
    H = H_T if case.get("grid") == "T" else H_Q
    hh, kk = np.meshgrid(H, H, indexing="ij")
    hh, kk = hh.ravel(), kk.ravel()
    if case["kind"] == "norm":
        xs = np.array(sorted(set(H + [-37.0, -10.0, 0.1, 1e-9, 10.0, 37.0])))
        v = ctx.call(ik.norm_cdf, xs)
        ref = np.array([phi(float(x)) for x in xs])
        ctx.valid(len(xs))
        ctx.outcome(np.round(v, 12).tolist())
        if not np.all(np.abs(v - ref) <= 1e-14 + 1e-12 * ref):
            ctx.violation("norm_cdf", "norm_cdf differs from erfc reference", v.tolist(), ref.tolist())
        if np.any(np.diff(v) < 0):
            ctx.violation("norm_cdf-monotone", "norm_cdf decreases", v.tolist())
        return
    if case["kind"] == "uniform":
        mu, w, h = case["mu"], case["w"], case["h"]
        # lattice of evaluation points in units of a quarter box, from far left to far right
        ux = [mu[0] + w * t for t in (-3, -0.5, -0.25, 0, 0.25, 0.5, 0.75, 3)]
        uy = [mu[1] + h * t for t in (-3, -0.5, -0.25, 0, 0.25, 0.5, 0.75, 3)]
        X, Y = np.meshgrid(ux, uy, indexing="ij")
        v = ctx.call(ik.uniform, X.ravel(), Y.ravel(), mu=np.array(mu), width=w, height=h)
        ref = np.array([uniform_cdf(x, y, mu, w, h) for x, y in zip(X.ravel(), Y.ravel())])
        ctx.valid(len(ref))
        ctx.outcome(np.round(np.asarray(v, dtype=float), 12).tolist())
        ctx.nontriv("uniform_box_cut_by_grid")
        if np.shape(v) != ref.shape or not np.all(np.abs(np.asarray(v) - ref) <= 1e-12):
            ctx.violation("uniform", "uniform kernel is not the CDF of the uniform law on the box", np.asarray(v).tolist(), ref.tolist())
        return
    mu, (vx, vy), r = case["mu"], case["var"], case["r"]
    sx, sy = math.sqrt(vx), math.sqrt(vy)
    cov = r * sx * sy
    x = mu[0] + hh * sx
    y = mu[1] + kk * sy
    # standardised coordinates as the kernel will see them (rounding in mu + h*s included)
    hs = (x - mu[0]) / sx
    ks = (y - mu[1]) / sy
    r_eff = cov / math.sqrt(vx * vy) if r != 0.0 else 0.0
    ref = np.array([phi2(float(a), float(b), float(r_eff)) for a, b in zip(hs, ks)])
    sigma = np.array([[vx, cov], [cov, vy]])
    entries = [("gaussian", lambda: ik.gaussian(x, y, mu=np.array(mu), sigma=sigma))]
    if r == 0.0:
        entries.append(("sbvn_cdf", lambda: ik.sbvn_cdf(x, y, mu_x=mu[0], mu_y=mu[1], sigma_x=vx, sigma_y=vy)))
        entries.append(("bvn_cdf", lambda: ik.bvn_cdf(x, y, mu_x=mu[0], mu_y=mu[1], sigma_xx=vx, sigma_yy=vy, sigma_xy=0.0)))
    else:
        entries.append(("bvn_cdf", lambda: ik.bvn_cdf(x, y, mu_x=mu[0], mu_y=mu[1], sigma_xx=vx, sigma_yy=vy, sigma_xy=cov)))
        ctx.nontriv("correlated_%s" % ("weak_below_0.01" if abs(r) <= 0.01 else "below_0.3" if abs(r) < 0.3 else "below_0.75" if abs(r) < 0.75 else "below_0.925" if abs(r) < 0.925 else "from_0.925"))
    for name, thunk in entries:
        v = np.asarray(ctx.call(thunk), dtype=float)
        ctx.valid(len(ref))
        if v.shape != ref.shape:
            ctx.violation("shape", "%s returned shape %r for %d points" % (name, v.shape, len(ref)))
            continue
        if name == "gaussian":
            ctx.outcome(np.round(v, 9).tolist())
        err = np.abs(v - ref)
        if not np.all(err <= TOL):
            i = int(np.nanargmax(err)) if np.any(np.isfinite(err)) else 0
            ctx.violation("accuracy", "%s differs from the reference bivariate normal CDF by more than 1e-7" % name,
                          observed=float(v[i]), expected=float(ref[i]), extra={"h": float(hs[i]), "k": float(ks[i]), "r": r, "entry": name})
        axioms(ctx, v.reshape(len(H), len(H)), case, sig_prefix="")
        if r == 0.0:
            prod = np.array([phi(float(a)) * phi(float(b)) for a, b in zip(hs, ks)])
            ctx.valid(len(ref))
            if not np.all(np.abs(v - prod) <= 1e-14):
                ctx.violation("zero-covariance-product", "%s with zero covariance is not the product of the marginals" % name,
                              observed=float(np.max(np.abs(v - prod))))
    # the shoulders of the tails, 3..7 standard deviations out, in steps fine enough that a cut-off of the
    # kernel ("no mass beyond c sigma") shows as an error above 1e-7 for every c up to 5.2
    if vx in (1.0, 0.01) and vy in (1.0, 100.0):
        pts = [(s_ * t, c) for t in TAILS for s_ in (-1.0, 1.0) for c in TAIL_PARTNERS] + [(c, s_ * t) for t in TAILS for s_ in (-1.0, 1.0) for c in TAIL_PARTNERS]
        xt = np.array([mu[0] + a * sx for a, _ in pts])
        yt = np.array([mu[1] + b * sy for _, b in pts])
        reft = np.array([phi2(float((a_ - mu[0]) / sx), float((b_ - mu[1]) / sy), float(r_eff)) for a_, b_ in zip(xt, yt)])
        vt = np.asarray(ctx.call(ik.gaussian, xt, yt, mu=np.array(mu), sigma=sigma), dtype=float)
        ctx.valid(len(reft))
        errt = np.abs(vt - reft) if vt.shape == reft.shape else np.array([np.inf])
        if not np.all(errt <= TOL):
            i = int(np.nanargmax(errt)) if vt.shape == reft.shape else 0
            ctx.violation("accuracy", "gaussian differs from the reference bivariate normal CDF by more than 1e-7 on the tail shoulders",
                          observed=float(vt[i]) if vt.shape == reft.shape else list(vt.shape), expected=float(reft[i]),
                          extra={"h": pts[i][0], "k": pts[i][1], "r": r})
        ctx.nontriv("tail_shoulders")
    # a long array (the grid tiled to ~5000 points): block-wise evaluation must not depend on the position
    if case.get("grid") != "T" and abs(r) in (0.0, 0.5, 0.93, 0.99999):
        reps = 5000 // len(x) + 1
        xl, yl = np.tile(x, reps), np.tile(y, reps)
        vl = np.asarray(ctx.call(ik.gaussian, xl, yl, mu=np.array(mu), sigma=sigma), dtype=float)
        ctx.valid()
        if vl.shape != xl.shape or not np.all(np.abs(vl - np.tile(ref, reps)) <= TOL):
            bad = int(np.nanargmax(np.abs(vl - np.tile(ref, reps)))) if vl.shape == xl.shape else -1
            ctx.violation("accuracy", "gaussian on a %d-point array differs from the reference (first bad index %d)" % (len(xl), bad),
                          observed=float(vl[bad]) if bad >= 0 else list(vl.shape), expected=float(np.tile(ref, reps)[bad]) if bad >= 0 else len(xl), extra={"r": r})
    # evaluation points given as INTEGER-typed arrays (np.arange pixel corners), both or one of them: the CDF values
    # are those at the equal floats (a result buffer or an intermediate must not take the integer dtype)
    gi = np.arange(-3, 5, dtype=np.int64)
    XI, YI = np.meshgrid(gi, gi, indexing="ij")
    xi, yi = XI.ravel(), YI.ravel()
    refi = np.array([phi2(float((a_ - mu[0]) / sx), float((b_ - mu[1]) / sy), float(r_eff)) for a_, b_ in zip(xi, yi)])
    for what, ax_, ay_ in (("int64 x and y", xi, yi), ("int32 x, float y", xi.astype(np.int32), yi.astype(float)), ("float x, int16 y", xi.astype(float), yi.astype(np.int16))):
        vi = np.asarray(ctx.call(ik.gaussian, ax_, ay_, mu=np.array(mu), sigma=sigma), dtype=float)
        ctx.valid(len(refi))
        if vi.shape != refi.shape or not np.all(np.abs(vi - refi) <= TOL):
            i = int(np.nanargmax(np.abs(vi - refi))) if vi.shape == refi.shape else 0
            ctx.violation("accuracy-int-points", "gaussian at integer-typed evaluation points (%s) differs from the reference" % what,
                          observed=float(vi[i]) if vi.shape == refi.shape else list(vi.shape), expected=float(refi[i]), extra={"x": int(xi[i]), "y": int(yi[i]), "r": r})
    # one-point arrays and x/y roles: P(X<=x, Y<=y) with unequal marginals
    for a, b in ((0.3, -1.0), (2.0, 0.0)):
        v1 = np.asarray(ctx.call(ik.gaussian, np.array([mu[0] + a * sx]), np.array([mu[1] + b * sy]), mu=np.array(mu), sigma=sigma), dtype=float)
        ha = ((mu[0] + a * sx) - mu[0]) / sx
        kb = ((mu[1] + b * sy) - mu[1]) / sy
        want = phi2(float(ha), float(kb), float(r_eff))
        ctx.valid()
        if v1.shape != (1,) or abs(v1[0] - want) > TOL:
            ctx.violation("single-point", "gaussian on one-element arrays is wrong", v1.tolist(), want)
