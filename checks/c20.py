"""C20 — plots draw exactly the data and matchings they are given (explorer A over option products)."""
import itertools
import warnings

import numpy as np

from mc.seams import HKSeam

PROPERTY = "C20"
INF = float("inf")
RULE = (
    "plot_diagrams: 10-element diagram cover (one point, several, infinite deaths, negative coordinates, "
    "2- and 3-diagram lists) x FULL option product plot_only x lifetime x diagonal x legend x labels "
    "(None/str/list) x xy_range (None / explicit square / explicit non-square) x title x (supplied ax is / is not pyplot's current axes / "
    "no ax given) ; matching plots: the matchings actually returned by bottleneck (under ALL rank "
    "orders of the matching routine, M+N<=4) and wasserstein for all ordered pairs of a 6-diagram cover "
    "incl. an empty partner, again with the supplied axes current or not; 2-D landscape plots (plot_landscape_simple) of 4 diagrams x exact/grid class x 4 depth ranges x 3 axes modes: one line per plotted depth running along that depth's function. Oracle = artist inspection: "
    "PathCollection offsets, Line2D data, limits, labels, legend texts, and nothing on the other axes. "
    "state = (input, options); transition = one plotting call; non-trivial = infinite deaths present, "
    "plot_only given, or the supplied axes is not the current one."
    " Landscape plots also of compute=False objects, with one legend entry per plotted depth; the marked bottleneck pair is not the thinner line."
)
ASSUMPTIONS = ["only artists are inspected, not rendered pixels", "axis labels are checked case-insensitively for birth / death / life(time)"]

COVER = [
    ("one-point", [[[0.5, 2.0]]]),
    ("several", [[[0.0, 1.0], [1.0, 1.0], [2.0, 4.0], [3.0, 5.0]]]),
    ("with-inf", [[[0.0, 1.0], [0.5, INF], [1.0, 3.0]]]),
    ("negative", [[[-3.0, -1.0], [-2.0, 0.5]]]),
    ("two-diagrams", [[[0.0, 1.0], [0.0, INF]], [[0.5, 2.0], [1.0, 1.5]]]),
    ("three-diagrams", [[[0.0, 2.0]], [[1.0, 3.0], [-1.0, 0.0]], [[0.5, 0.75], [2.0, INF], [2.0, 2.5]]]),
    ("far-from-origin", [[[100.0, 101.5], [100.5, INF], [102.0, 103.0]]]),
    ("inf-born-late", [[[0.0, 1.0], [0.5, 2.0], [3.0, INF]], [[-4.0, INF], [0.25, 0.75]]]),
    # an essential class born far beyond every finite death (the margin of the automatic extent cannot hide it), and only essential classes
    ("inf-born-far-later", [[[0.0, 0.5], [0.2, 0.9], [6.0, INF]], [[9.0, INF]]]),
    ("only-inf", [[[1.0, INF], [4.0, INF]]]),
]
MCOVER = [
    [[0.0, 1.0]],
    [[0.0, 2.0], [1.0, 3.0]],
    [[0.5, 3.0], [1.0, 1.5], [2.0, 4.0]],
    [[-2.0, -1.0], [-1.0, 1.0]],
    [],
    [[1.0, 1.0], [0.0, 4.0]],
    [[0.0, 1.0], [2.0, 5.0], [1.0, 4.0]],        # integer coordinates with odd birth + death
    [[0.0, INF], [1.0, 2.0], [0.5, 3.0]],        # an infinite death BEFORE the finite points (ripser's H0 layout reversed)
    [[2.0, 2.5], [1.0, INF]],
]


def bounds(tier):
    return {"diagram_cover": len(COVER), "option_product": "plot_only(2-4) x 2 x 2 x 2 x 3 x 3 x 2 x 3", "matching_cover": len(MCOVER)}


def option_product(n_dgms):
    plot_onlys = [None, [n_dgms - 1] if n_dgms > 1 else [0]]
    if n_dgms == 3:
        plot_onlys += [[2, 0], [0, 1]]
    elif n_dgms == 2:
        plot_onlys += [[1, 0]]
    for po, lifetime, diagonal, legend, labels, xyr, title, axmode in itertools.product(
            plot_onlys, (False, True), (True, False), (True, False), ("none", "str", "list"), (None, [-5.0, 8.0, -4.0, 9.0], [-5.0, 112.0, -4.0, 6.0]),
            (None, "A title"), ("given-current", "given-not-current", "not-given")):
        yield {"plot_only": po, "lifetime": lifetime, "diagonal": diagonal, "legend": legend, "labels": labels,
               "xy_range": xyr, "title": title, "axmode": axmode}


LCOVER = [
    [[0.0, 4.0]],
    [[0.0, 4.0], [1.0, 5.0]],
    [[0.0, 6.0], [1.0, 5.0], [2.0, 4.0], [7.0, 9.0]],
    [[-3.0, 1.0], [-1.0, 2.5], [0.5, 1.5]],
]
LDEPTHS = [None, [0, 1], [1, 3], [2, 3]]


def cases(tier):
    yield {"kind": "large-matching"}
    for li in range(len(LCOVER)):
        for cls in ("exact", "approx"):
            for di in range(len(LDEPTHS)):
                for axmode in ("given-current", "given-not-current", "not-given"):
                    yield {"kind": "landscape", "dgm": li, "cls": cls, "depths": di, "axmode": axmode}
    for ci, (name, dgms) in enumerate(COVER):
        for opt in option_product(len(dgms)):
            yield {"kind": "diagrams", "cover": ci, "opt": opt}
    for i, j in itertools.product(range(len(MCOVER)), repeat=2):
        if not MCOVER[i] and not MCOVER[j]:
            continue
        for axmode in ("given-current", "given-not-current", "not-given"):
            yield {"kind": "matching", "i": i, "j": j, "axmode": axmode}


def setup_axes(axmode):
    import matplotlib.pyplot as plt

    fig, (a1, a2) = plt.subplots(1, 2)
    if axmode == "given-current":
        plt.sca(a1)
        return fig, a1, a2, a1
    if axmode == "given-not-current":
        plt.sca(a2)
        return fig, a1, a2, a1
    plt.sca(a1)
    return fig, a1, a2, None


def scatters(ax):
    return [c for c in ax.collections if c.__class__.__name__ == "PathCollection"]


def untouched(ctx, other, what, ex):
    ctx.valid()
    if other.collections or other.lines or other.get_title() or other.get_legend() is not None or other.patches:
        ctx.violation("drew-on-other-axes", "something was drawn on axes that were not the target [%s]" % what,
                      observed={"collections": len(other.collections), "lines": [l.get_xydata().tolist() for l in other.lines]}, extra=ex)
        return False
    return True


def run_case(case, ctx):
    import matplotlib.pyplot as plt

    try:
        with warnings.catch_warnings():
            warnings.simplefilter("ignore")
            if case["kind"] == "large-matching":
                large_matching_case(ctx)
            elif case["kind"] == "diagrams":
                diagrams_case(case, ctx)
            elif case["kind"] == "landscape":
                landscape_case(case, ctx)
            else:
                matching_case(case, ctx)
    finally:
        plt.close("all")


def landscape_case(case, ctx):
    """2-D landscape plots (plot_landscape_simple): one line per plotted depth, each line running along that
    depth's function (every vertex on it, the whole support covered, the peak not cut), on the axes given."""
    import matplotlib.pyplot as plt
    from persim import PersLandscapeApprox, PersLandscapeExact
    from persim.landscapes import plot_landscape_simple

    from oracles import landscape as OL

    D = LCOVER[case["dgm"]]
    A = np.array(D, dtype=float)
    if case["cls"] == "exact":
        L = PersLandscapeExact(dgms=[A], hom_deg=0)
        ndepth = len(L.critical_pairs)
    else:
        L = PersLandscapeApprox(dgms=[A], hom_deg=0, num_steps=41)
        ndepth = len(L.values)
        grid = np.linspace(L.start, L.stop, L.num_steps)
    dr = LDEPTHS[case["depths"]]
    plotted = list(range(ndepth)) if dr is None else [k for k in range(dr[0], dr[1]) if k < ndepth]
    fig, a1, a2, target = setup_axes(case["axmode"])
    kw = {} if dr is None else {"depth_range": range(dr[0], dr[1])}
    ctx.trans()
    # every other case hands over a landscape built with compute=False: the plot is then the first thing that
    # needs the critical points / sampled values (L stays the reference)
    Lp = L
    if (case["dgm"] + case["depths"]) % 2 == 1:
        Lp = (PersLandscapeExact(dgms=[A], hom_deg=0, compute=False) if case["cls"] == "exact"
              else PersLandscapeApprox(dgms=[A], hom_deg=0, num_steps=41, compute=False))
        ctx.nontriv("deferred_landscape_plotted")
    plot_landscape_simple(Lp, ax=target, title="LT", labels=["xx", "yy"], **kw)
    ax = target if target is not None else a1
    ex = {"diagram": D, "class": case["cls"], "depth_range": dr, "axmode": case["axmode"]}
    ctx.state((case["dgm"], case["cls"], case["depths"], case["axmode"]))
    if case["axmode"] == "given-not-current":
        ctx.nontriv("supplied_axes_not_current")
    if not untouched(ctx, a2, "plot_landscape_simple", ex):
        return
    lines = [l for l in ax.lines]
    ctx.valid(3)
    if len(lines) != len(plotted):
        ctx.violation("landscape-plot-lines", "plot_landscape_simple must draw one line per plotted depth", observed=len(lines), expected=len(plotted), extra=ex)
        return
    if ax.get_title() != "LT" or ax.get_xlabel() != "xx" or ax.get_ylabel() != "yy":
        ctx.violation("landscape-plot-labels", "title / axis labels of the landscape plot are not the requested ones",
                      observed=[ax.get_title(), ax.get_xlabel(), ax.get_ylabel()], expected=["LT", "xx", "yy"], extra=ex)
    # the depths are told apart by the legend: one entry per plotted depth
    leg = ax.get_legend()
    n_leg = len(leg.get_texts()) if leg is not None else 0
    if plotted and n_leg != len(plotted):
        ctx.violation("landscape-plot-legend", "the landscape plot's legend must have one entry per plotted depth", observed=n_leg, expected=len(plotted), extra=ex)
    for line, k in zip(lines, plotted):
        xy = np.asarray(line.get_xydata(), dtype=float)
        if case["cls"] == "exact":
            f = lambda t: float(OL.kth_tent(D, t, k + 1))  # noqa: E731
            support = [min(p[0] for p in L.critical_pairs[k]), max(p[0] for p in L.critical_pairs[k])]
            peak = max(float(p[1]) for p in L.critical_pairs[k])
        else:
            vals = np.asarray(L.values[k], dtype=float)
            f = lambda t: float(np.interp(t, grid, vals))  # noqa: E731
            nz = np.nonzero(vals)[0]
            support = [grid[max(0, nz[0] - 1)], grid[min(len(grid) - 1, nz[-1] + 1)]] if len(nz) else [grid[0], grid[0]]
            peak = float(vals.max())
        ctx.valid(3)
        off = [(float(x), float(y), f(float(x))) for x, y in xy if abs(y - f(float(x))) > 1e-9]
        if off:
            ctx.violation("landscape-plot-data", "a vertex of the line drawn for depth %d is not on that depth's function" % (k + 1), observed=off[:3], extra=ex)
        elif len(xy) and (xy[:, 0].min() > support[0] + 1e-9 or xy[:, 0].max() < support[1] - 1e-9):
            ctx.violation("landscape-plot-data", "the line drawn for depth %d does not cover the support of that depth's function" % (k + 1),
                          observed=[float(xy[:, 0].min()), float(xy[:, 0].max())], expected=support, extra=ex)
        elif len(xy) and abs(float(xy[:, 1].max()) - peak) > 1e-9:
            ctx.violation("landscape-plot-data", "the line drawn for depth %d misses the peak of that depth's function" % (k + 1), observed=float(xy[:, 1].max()), expected=peak, extra=ex)
    ctx.outcome(("landscape", case["dgm"], case["cls"], case["depths"], [np.round(np.asarray(l.get_xydata(), dtype=float), 6).tolist() for l in lines]))


def diagrams_case(case, ctx):
    import persim

    name, dgms = COVER[case["cover"]]
    opt = case["opt"]
    ctx.state(case)
    arrs = [np.array(d, dtype=float) for d in dgms]
    arg = arrs[0] if len(arrs) == 1 else arrs
    n = len(arrs)
    kw = dict(lifetime=opt["lifetime"], diagonal=opt["diagonal"], legend=opt["legend"], show=False)
    if opt["plot_only"] is not None:
        kw["plot_only"] = list(opt["plot_only"])
    all_labels = None
    if opt["labels"] == "str":
        kw["labels"] = "Lbl"
        all_labels = ["Lbl"] * n
    elif opt["labels"] == "list":
        kw["labels"] = ["L%d" % i for i in range(n)]
        all_labels = list(kw["labels"])
    if opt["xy_range"] is not None:
        kw["xy_range"] = list(opt["xy_range"])
    if opt["title"] is not None:
        kw["title"] = opt["title"]
    fig, target, other, axarg = setup_axes(opt["axmode"])
    if axarg is not None:
        kw["ax"] = axarg
    ex = {"diagrams": dgms, "options": opt}
    if opt["axmode"] == "given-current" and opt["labels"] == "none":
        # single-precision input (what ripser returns): the plot must be the same and the caller's
        # arrays must not be touched (they may be plotted again)
        arrs = [a.astype(np.float32) for a in arrs]
        arg = arrs[0] if len(arrs) == 1 else arrs
        ex["dtype"] = "float32"
    before = [a.tobytes() for a in arrs]
    ctx.trans()
    persim.plot_diagrams(arg, **kw)
    ctx.valid()
    if [a.tobytes() for a in arrs] != before:
        ctx.violation("argument-modified", "plot_diagrams modified the arrays it was given (%s input)" % arrs[0].dtype, extra=ex)
        arrs = [np.array(d, dtype=float) for d in dgms]
    sel = list(range(n)) if opt["plot_only"] is None else list(opt["plot_only"])
    plotted = [arrs[i] for i in sel]
    has_inf = any(np.isinf(p).any() for p in plotted)
    if has_inf:
        ctx.nontriv("infinite_deaths")
    elif opt["plot_only"] is not None and n > 1:
        ctx.nontriv("plot_only_selects")
    elif opt["axmode"] == "given-not-current":
        ctx.nontriv("axes_not_current")
    untouched(ctx, other, "plot_diagrams", ex)
    xlim, ylim = target.get_xlim(), target.get_ylim()
    ctx.outcome((name, [round(v, 6) for v in xlim + ylim], len(target.collections), len(target.lines)))
    # --- one scatter collection per plotted diagram, with that diagram's coordinates
    sc = scatters(target)
    ctx.valid(5)
    if len(sc) != len(plotted):
        ctx.violation("scatter-count", "expected one scatter collection per plotted diagram", observed=len(sc), expected=len(plotted), extra=ex)
        return
    # infinity line
    y_inf = None
    hlines = [l for l in target.lines if len(l.get_ydata()) == 2 and l.get_ydata()[0] == l.get_ydata()[1]]
    if has_inf:
        cands = [l for l in hlines if not (opt["lifetime"] and l.get_ydata()[0] == 0)]
        if not cands:
            ctx.violation("inf-line", "infinite deaths present but no horizontal infinity line was drawn", extra=ex)
            return
        # the infinity line is the horizontal line the infinite points sit on
        ys = set()
        for coll, p in zip(sc, plotted):
            off = np.asarray(coll.get_offsets(), dtype=float)
            if off.shape == (len(p), 2):
                ys.update(off[np.isinf(p[:, 1]), 1].tolist())
        if len(ys) != 1 or not any(abs(l.get_ydata()[0] - list(ys)[0]) <= 1e-6 * max(1.0, abs(list(ys)[0])) for l in cands):
            ctx.violation("inf-line", "points with infinite death are not placed on one drawn horizontal infinity line",
                          observed={"point_heights": sorted(ys), "lines": [float(l.get_ydata()[0]) for l in cands]}, extra=ex)
            return
        y_inf = list(ys)[0]
        if not (min(ylim) < y_inf < max(ylim)):
            ctx.violation("inf-line", "the infinity line is not strictly inside the y-limits", observed=y_inf, expected=list(ylim), extra=ex)
    for k, (coll, p) in enumerate(zip(sc, plotted)):
        off = np.asarray(coll.get_offsets(), dtype=float)
        want = p.astype(np.float32).astype(float)
        if opt["lifetime"]:
            want = np.column_stack([want[:, 0], (p[:, 1].astype(np.float32) - p[:, 0].astype(np.float32)).astype(float)])
        fin = np.isfinite(want[:, 1])
        if off.shape != want.shape or not np.all(np.abs(off[fin] - want[fin]) <= 1e-6 * np.maximum(1.0, np.abs(want[fin]))):
            ctx.violation("scatter-coordinates", "scatter collection %d does not hold that diagram's points (%s)" % (k, "birth, death-birth" if opt["lifetime"] else "birth, death"),
                          observed=off.tolist(), expected=want.tolist(), extra=ex)
            return
        if y_inf is not None and not np.all(np.abs(off[~fin, 1] - y_inf) <= 1e-6 * max(1.0, abs(y_inf))):
            ctx.violation("inf-line", "an infinite death is not drawn on the infinity line", observed=off.tolist(), expected=y_inf, extra=ex)
        # points with infinite death sit on the infinity line INSIDE the axes: their birth must be visible too
        if opt["xy_range"] is None and (~fin).any():
            xb = off[~fin, 0]
            if xb.min() < min(xlim) - 1e-9 or xb.max() > max(xlim) + 1e-9:
                ctx.violation("limits", "a point with infinite death is drawn outside the x-limits", observed=list(xlim), expected=xb.tolist(), extra=ex)
        # limits contain every finite point unless an explicit range is requested
        if opt["xy_range"] is None and fin.any():
            if off[fin, 0].min() < min(xlim) - 1e-9 or off[fin, 0].max() > max(xlim) + 1e-9 or off[fin, 1].min() < min(ylim) - 1e-9 or off[fin, 1].max() > max(ylim) + 1e-9:
                ctx.violation("limits", "axis limits do not contain all finite points", observed=[list(xlim), list(ylim)], expected=off[fin].tolist(), extra=ex)
    if opt["xy_range"] is not None:
        xr = opt["xy_range"]
        if abs(xlim[0] - xr[0]) > 1e-9 or abs(xlim[1] - xr[1]) > 1e-9:
            ctx.violation("limits", "explicit xy_range not applied to the x axis", observed=list(xlim), expected=xr[:2], extra=ex)
        if not opt["lifetime"] and (abs(ylim[0] - xr[2]) > 1e-9 or abs(ylim[1] - xr[3]) > 1e-9):
            ctx.violation("limits", "explicit xy_range not applied to the y axis", observed=list(ylim), expected=xr[2:], extra=ex)
    # --- diagonal
    diag = [l for l in target.lines if len(l.get_xdata()) == 2 and np.allclose(l.get_xdata(), l.get_ydata()) and l.get_xdata()[0] != l.get_xdata()[1]]
    ctx.valid()
    if (opt["diagonal"] and not opt["lifetime"]) != bool(diag):
        ctx.violation("diagonal", "diagonal line drawn iff requested (and not in lifetime mode)", observed=len(diag), expected=bool(opt["diagonal"] and not opt["lifetime"]), extra=ex)
    # --- title, axis labels, legend
    ctx.valid(3)
    if opt["title"] is not None and target.get_title() != opt["title"]:
        ctx.violation("title", "title not set as requested", observed=target.get_title(), expected=opt["title"], extra=ex)
    if opt["title"] is None and target.get_title() != "":
        ctx.violation("title", "a title appeared although none was requested", observed=target.get_title(), extra=ex)
    xl, yl = target.get_xlabel().lower(), target.get_ylabel().lower()
    if "birth" not in xl or ("life" not in yl if opt["lifetime"] else "death" not in yl):
        ctx.violation("axis-labels", "axis labels do not name birth and death / lifetime", observed=[target.get_xlabel(), target.get_ylabel()], extra=ex)
    leg = target.get_legend()
    if bool(opt["legend"]) != (leg is not None):
        ctx.violation("legend", "legend present iff requested", observed=leg is not None, expected=opt["legend"], extra=ex)
    elif leg is not None:
        texts = [t.get_text() for t in leg.get_texts()]
        want = [("$H_{%d}$" % i if all_labels is None else all_labels[i]) for i in sel]
        got = [t for t in texts if "infty" not in t]
        if got != want:
            ctx.violation("legend-labels", "legend entries are not the labels of the plotted diagrams", observed=texts, expected=want, extra=ex)
    # scatter labels themselves (also when no legend is shown)
    ctx.valid()
    want = [("$H_{%d}$" % i if all_labels is None else all_labels[i]) for i in sel]
    if [c.get_label() for c in sc] != want:
        ctx.violation("legend-labels", "scatter collections do not carry the labels of the plotted diagrams", observed=[c.get_label() for c in sc], expected=want, extra=ex)


_seam = HKSeam()


def seg_key(l):
    x, y = np.asarray(l.get_xdata(), dtype=float), np.asarray(l.get_ydata(), dtype=float)
    return (x[0], y[0], x[1], y[1])


def same_seg(a, b, tol=1e-6):
    a, b = np.array(a), np.array(b)
    return np.all(np.abs(a - b) <= tol) or np.all(np.abs(a - b[[2, 3, 0, 1]]) <= tol)


def large_matching_case(ctx):
    """A matching with several hundred rows whose bottleneck pair is one of the LAST rows."""
    import matplotlib.pyplot as plt
    import persim

    from checks.common import medium_diagram

    for n in (40, 140):
        S = medium_diagram(n, 0, False)
        T = medium_diagram(n, 1, False) + [[0.0, 30.0]]      # unmatched long bar at the end: the bottleneck pair
        if n == 140:
            # short bars far apart: every point goes to the diagonal, so the matching has M+N = 281 rows and
            # the bottleneck pair is row 280
            S = [[p[0], p[0] + 0.05 + (p[1] - p[0]) / 40.0] for p in S]
            T = [[p[0] + 100.0, p[0] + 100.05 + (p[1] - p[0]) / 40.0] for p in T[:-1]] + [[0.0, 30.0]]
        A, B = np.array(S), np.array(T)
        for which in ("bottleneck", "wasserstein"):
            d, m = getattr(persim, which)(A, B, matching=True)
            m = np.asarray(m, dtype=float)
            fig, target, other, axarg = setup_axes("given-not-current")
            ctx.trans()
            getattr(persim, which + "_matching")(A, B, m, ax=axarg)
            ex = {"n": n, "which": which, "rows": len(m)}
            ctx.state(("large-matching", n, which))
            ctx.nontriv("matching_with_%d_rows" % len(m), key=("large-matching", n, which))
            untouched(ctx, other, which + "_matching", ex)
            segs = [l for l in target.lines if len(l.get_xdata()) == 2 and not (abs(seg_key(l)[0] - seg_key(l)[1]) <= 1e-9 and abs(seg_key(l)[2] - seg_key(l)[3]) <= 1e-9)]
            ctx.valid(2)
            if len(segs) != len(m):
                ctx.violation("matching-segment-missing", "%s_matching: %d segments for %d matched pairs" % (which, len(segs), len(m)), extra=ex)
            if which == "bottleneck":
                top = int(np.argmax(m[:, 2]))
                i, j = int(m[top, 0]), int(m[top, 1])
                p = S[i] if i >= 0 else T[j]
                q = T[j] if (i >= 0 and j >= 0) else [(p[0] + p[1]) / 2.0] * 2
                want = (p[0], p[1], q[0], q[1])
                hit = [l for l in segs if same_seg(seg_key(l), want)]
                styles = [(str(l.get_color()), str(l.get_linestyle()), float(l.get_linewidth())) for l in segs]
                ok = len(hit) >= 1 and any(styles.count((str(l.get_color()), str(l.get_linestyle()), float(l.get_linewidth()))) == 1 for l in hit) and len(set(styles)) == 2 \
                    and all(float(l.get_linewidth()) >= max(st[2] for st in styles) for l in hit)
                if not ok:
                    ctx.violation("bottleneck-pair-not-marked", "the bottleneck pair (row %d of %d) is not the one distinctly styled segment" % (top, len(m)),
                                  observed={"distinct_styles": len(set(styles))}, extra=ex)
            plt.close(fig)


def matching_case(case, ctx):
    import persim

    S, T = MCOVER[case["i"]], MCOVER[case["j"]]
    A, B = np.array(S, dtype=float).reshape(-1, 2), np.array(T, dtype=float).reshape(-1, 2)
    # the distance functions drop points with infinite death: the matching indexes the remaining points
    Sfin, Tfin = [p for p in S if np.isfinite(p[1])], [p for p in T if np.isfinite(p[1])]
    S1, T1 = (Sfin or [[0.0, 0.0]]), (Tfin or [[0.0, 0.0]])
    ctx.state(case)
    todo = []
    dw, mw = persim.wasserstein(A, B, matching=True)
    todo.append(("wasserstein", mw, None))
    k = max(len(S), 1) + max(len(T), 1)
    seen = set()
    if k <= 4:
        with _seam.installed() as live:
            orders = list(HKSeam.all_orders(k)) if live else [None]
            for order in orders:
                if order is not None:
                    HKSeam.set_order(order)
                db, mb = persim.bottleneck(A, B, matching=True)
                key = tuple(map(tuple, np.asarray(mb).tolist()))
                if key not in seen:
                    seen.add(key)
                    todo.append(("bottleneck", mb, order))
    else:
        db, mb = persim.bottleneck(A, B, matching=True)
        todo.append(("bottleneck", mb, None))
    if len(seen) > 1:
        ctx.nontriv("several_bottleneck_matchings_plotted")
    if case["axmode"] == "given-not-current":
        ctx.nontriv("axes_not_current")
    for which, m, order in todo:
        import matplotlib.pyplot as plt

        fig, target, other, axarg = setup_axes(case["axmode"])
        kw = {"ax": axarg} if axarg is not None else {}
        m = np.asarray(m, dtype=float)
        ex = {"S": S, "T": T, "matching": m.tolist(), "which": which, "axmode": case["axmode"]}
        ctx.trans()
        # the diagrams are handed to the plot as float arrays, or - where every coordinate is an integer - as
        # integer arrays (rotating with the axes mode): feet on the diagonal have half-integer coordinates then
        Ap, Bp = A, B
        if case["axmode"] != "given-current" and all(float(x).is_integer() for p_ in S + T for x in p_ if np.isfinite(x)) and all(np.isfinite(x) for p_ in S + T for x in p_):
            Ap, Bp = A.astype(np.int64 if case["axmode"] == "not-given" else np.int32), B.astype(np.int64)
            ex["dtype"] = "integer arrays"
        getattr(persim, which + "_matching")(Ap, Bp, m, **kw)
        untouched(ctx, other, which + "_matching", ex)
        # expected segments: one per row
        want = []
        for i, j, c in m:
            i, j = int(i), int(j)
            if i >= 0 and j >= 0:
                want.append((S1[i][0], S1[i][1], T1[j][0], T1[j][1], c))
            elif i >= 0:
                f = (S1[i][0] + S1[i][1]) / 2.0
                want.append((S1[i][0], S1[i][1], f, f, c))
            else:
                f = (T1[j][0] + T1[j][1]) / 2.0
                want.append((T1[j][0], T1[j][1], f, f, c))
        lines = list(target.lines)
        # the diagonal drawn by plot_diagrams is the one dashed black-ish line with x == y over the whole range
        segs = [l for l in lines if len(l.get_xdata()) == 2]
        used = set()
        missing = []
        styles = []
        for w in want:
            hit = None
            for idx, l in enumerate(segs):
                if idx not in used and same_seg(seg_key(l), w[:4]):
                    hit = idx
                    break
            if hit is None:
                missing.append(list(w[:4]))
            else:
                used.add(hit)
                l = segs[hit]
                styles.append((str(l.get_color()), str(l.get_linestyle()), float(l.get_linewidth())))
        ctx.valid(3)
        ctx.outcome((which, len(want), len(segs)))
        if missing:
            ctx.violation("matching-segment-missing", "%s_matching: no segment on the supplied axes for a matched pair" % which,
                          observed=[list(seg_key(l)) for l in segs], expected=missing, extra=ex)
            plt.close(fig)
            continue
        has_inf = len(Sfin) < len(S) or len(Tfin) < len(T)
        extra_lines = [list(seg_key(l)) for idx, l in enumerate(segs) if idx not in used
                       and not (abs(seg_key(l)[0] - seg_key(l)[1]) <= 1e-9 and abs(seg_key(l)[2] - seg_key(l)[3]) <= 1e-9)
                       # (the horizontal infinity line of the underlying diagram plot, when infinite deaths are present)
                       and not (has_inf and abs(float(l.get_ydata()[0]) - float(l.get_ydata()[1])) <= 1e-9)]
        if extra_lines:
            ctx.violation("matching-extra-segment", "%s_matching drew segments that belong to no matched pair" % which, observed=extra_lines, extra=ex)
        if len(scatters(target)) != 2:
            ctx.violation("matching-scatter", "%s_matching must show both diagrams" % which, observed=len(scatters(target)), extra=ex)
        if which == "bottleneck" and len(want) > 1:
            costs = [w[4] for w in want]
            top = max(costs)
            marked = False
            for k in range(len(styles)):
                others = [st for t, st in enumerate(styles) if t != k]
                # distinct, and not by being drawn LESS prominently than the ordinary pairs (thinner line)
                if styles[k] not in others and len(set(others)) == 1 and abs(costs[k] - top) <= 1e-12 and styles[k][2] >= max(o[2] for o in others):
                    marked = True
            if not marked:
                ctx.violation("bottleneck-pair-not-marked", "the bottleneck pair (largest cost) is not the one distinctly styled segment",
                              observed={"styles": styles, "costs": costs}, extra=ex)
        plt.close(fig)
