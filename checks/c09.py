"""C09 — landscape arithmetic is pointwise and leaves operands untouched (explorers A + B)."""
import copy
import io
import contextlib

import numpy as np

from checks import lsops
from checks.common import is_num
from mc import history
from oracles import plfun as P

PROPERTY = "C09"
SCALARS = [-2, -1, 0.5, 3, 0, 1, -0.0, 2.5e-7, np.int64(3), np.float32(0.5), np.float64(-1.5)]   # NumPy scalars are real numbers too
TOL = 1e-9
RULE = (
    "A: ALL ordered pairs of the operand set (exact: landscapes of all multisets of <= 2 lattice bars, all "
    "38 hand-made PL functions, 6 two-depth ones; grid: all value arrays over {-1,0,1,2} on 3 nodes, "
    "subsets on 4/5 nodes, landscapes of diagrams) with +, -, unary -, scalar *, /, both operand orders, "
    "c in {-2,-1,0.5,3} and division by 0; result compared pointwise (all breakpoints, exact rationals) "
    "with the reference, operands snapshotted before and compared after; mismatched degree/grid must "
    "raise; snap_pl / lc_approx / average_approx vs linear interpolation. B: BFS over operation histories "
    "(add, sub, neg, mul, div, norm on shared pool members, results joining the pool) to depth 2 (quick) / "
    "3 (thorough): after every step every pool member equals its reference and the original operands "
    "are unchanged. state = pool of functions; transition = one persim operator call; non-trivial = "
    "operands with different breakpoints / different depth counts, or a history re-using a result."
    " snap_pl / lc_approx / average_approx also on fresh compute=False sources."
)
ASSUMPTIONS = [
    "reference: exact rational PL arithmetic (oracles/plfun.py) for the exact class, numpy on the node values for the grid class",
    "snap_pl targets outside the source grid are only used with operands whose edge values are 0 (continuation of a non-vanishing edge is unspecified)",
]


def bounds(tier):
    return {"scalars": SCALARS, "exact_operands": len(lsops.exact_operand_specs()), "grids": lsops.GRIDS,
            "history_depth": 2 if tier == "quick" else 3, "pools": len(POOLS)}


# ---------------------------------------------------------------------------------------------
# snapshots
# ---------------------------------------------------------------------------------------------
def snap(pl):
    if hasattr(pl, "critical_pairs"):
        return ("exact", pl.hom_deg, copy.deepcopy([[list(map(float, p)) for p in d] for d in pl.critical_pairs]))
    v = np.asarray(pl.values)
    return ("grid", pl.hom_deg, pl.start, pl.stop, pl.num_steps, v.dtype.str, v.shape, v.tobytes())


def refs_equal(ctx, sig, got_pl, want_fs, what, extra):
    return refs_equal_tol(ctx, sig, got_pl, want_fs, what, extra, TOL)


def refs_equal_tol(ctx, sig, got_pl, want_fs, what, extra, tol):
    """Exact class: persim's result functions == reference functions everywhere (missing depth = 0)."""
    ctx.valid()
    try:
        got = lsops.exact_ref(got_pl)
    except Exception as e:  # noqa: BLE001
        ctx.violation(sig, "result is not an exact landscape with critical pairs [%s]: %s" % (what, e), observed=repr(got_pl), extra=extra)
        return False
    for k in range(max(len(got), len(want_fs))):
        g = got[k] if k < len(got) else []
        w = want_fs[k] if k < len(want_fs) else []
        ok, t = P.equal_everywhere(g, w, tol=tol)
        if not ok:
            ctx.violation(sig, "%s is not the pointwise operation at depth %d, t=%s" % (what, k + 1, float(t)),
                          observed=float(P.ev(g, t)), expected=float(P.ev(w, t)), extra=extra)
            return False
    return True


def vals_equal(ctx, sig, got_pl, want, grid, what, extra):
    ctx.valid()
    V = np.asarray(got_pl.values, dtype=float) if np.asarray(got_pl.values).dtype.kind in "fiu" else None
    ok = V is not None and V.ndim == 2
    if ok:
        d = max(V.shape[0], want.shape[0])
        a = np.zeros((d, V.shape[1]))
        a[: V.shape[0]] = V
        b = np.zeros((d, want.shape[1]))
        b[: want.shape[0]] = want
        ok = a.shape == b.shape and np.all(np.abs(a - b) <= 1e-12 * np.maximum(1.0, np.abs(b)))
    ok = ok and (got_pl.start, got_pl.stop, got_pl.num_steps) == tuple(grid)
    if not ok:
        ctx.violation(sig, "%s is not the pointwise operation on the node values" % what,
                      observed=None if V is None else V.tolist(), expected=want.tolist(), extra=extra)
    return ok


def must_raise(ctx, sig, what, thunk, extra=None):
    ctx.valid()
    ctx.trans()
    try:
        r = thunk()
    except Exception:  # noqa: BLE001
        return
    ctx.violation(sig, "%s: expected an error, got %r" % (what, r), extra=extra)


def pad(a, b):
    d = max(a.shape[0], b.shape[0])
    A = np.zeros((d, a.shape[1]))
    A[: a.shape[0]] = a
    B = np.zeros((d, b.shape[1]))
    B[: b.shape[0]] = b
    return A, B


# ---------------------------------------------------------------------------------------------
# A: all pairs
# ---------------------------------------------------------------------------------------------
def cases(tier):
    for i in range(len(lsops.exact_operand_specs(tier))):
        yield {"kind": "exact-row", "i": i}
    for gi, grid in enumerate(lsops.GRIDS):
        for i in range(len(lsops.approx_operand_specs(grid, tier))):
            yield {"kind": "grid-row", "grid": gi, "i": i}
    yield {"kind": "snap"}
    for pi in range(len(POOLS)):
        for f in range(first_ops_count(pi)):
            yield {"kind": "history", "pool": pi, "first": f}


def run_shard(ctx):
    import sys

    me = sys.modules[__name__]
    for i, case in enumerate(cases(ctx.tier)):
        if i % ctx.nshards != ctx.shard:
            continue
        if case["kind"] == "history":
            hist_bfs(case, ctx)  # drives ctx.run_case itself, one history at a time
        else:
            ctx.run_case(me, case)


def run_case(case, ctx):
    k = case.get("kind") or ("history-replay" if "init" in case else None)
    if k == "exact-row":
        exact_row(case, ctx)
    elif k == "grid-row":
        grid_row(case, ctx)
    elif k == "snap":
        snap_checks(ctx)
        long_lists(ctx)
    elif k == "history":
        hist_bfs(case, ctx)
    elif k == "history-replay":
        for n in range(len(case["ops"]) + 1):
            run_history({"init": case["init"], "ops": case["ops"][:n]}, ctx)


def exact_row(case, ctx):
    from persim import PersLandscapeExact

    specs = lsops.exact_operand_specs(ctx.tier)
    sa = specs[case["i"]]
    A = lsops.build_exact(sa)
    fa = lsops.exact_ref(A)
    sA = snap(A)
    ex = {"A": sa}
    # unary / scalar operations
    refs_equal(ctx, "exact-neg", ctx.call(lambda: -A), [P.scale(f, -1) for f in fa], "-A", ex)
    for c in SCALARS:
        want = [P.scale(f, c) for f in fa]
        refs_equal(ctx, "exact-mul", ctx.call(lambda: A * c), want, "A*%r" % c, ex)
        refs_equal(ctx, "exact-mul", ctx.call(lambda: c * A), want, "%r*A" % c, ex)
        if c != 0:
            wantd = [P.scale(f, P.F(1) / P.F(c)) for f in fa]
            refs_equal_tol(ctx, "exact-div", ctx.call(lambda: A / c), wantd, "A/%r" % c, ex, TOL * max(1.0, abs(1.0 / c)))
    must_raise(ctx, "exact-div-zero", "A/0", lambda: A / 0, ex)
    must_raise(ctx, "exact-div-zero", "A/0.0", lambda: A / 0.0, ex)
    Q = PersLandscapeExact(critical_pairs=[[[0, 0], [1, 1], [2, 0]]], hom_deg=1)
    must_raise(ctx, "exact-degree-mismatch", "A + (landscape of another homological degree)", lambda: A + Q, ex)
    must_raise(ctx, "exact-degree-mismatch", "A - (landscape of another homological degree)", lambda: A - Q, ex)
    must_raise(ctx, "exact-degree-mismatch", "(landscape of another homological degree) + A", lambda: Q + A, ex)
    must_raise(ctx, "exact-degree-mismatch", "(landscape of another homological degree) - A", lambda: Q - A, ex)
    ctx.valid()
    if snap(A) != sA:
        ctx.violation("operand-modified", "a unary/scalar operation changed its operand", observed=snap(A)[2], expected=sA[2], extra=ex)
    for sb in specs:
        B = lsops.build_exact(sb)
        fb = lsops.exact_ref(B)
        sB = snap(B)
        ctx.state(("exact", sa, sb))
        ex2 = {"A": sa, "B": sb}
        if len(fa) != len(fb) or any(P.xs(f) != P.xs(g) for f, g in zip(fa, fb)):
            ctx.nontriv("different_breakpoints_or_depths", key=("exact", sa, sb))
        n = max(len(fa), len(fb))
        z = lambda fs, i: fs[i] if i < len(fs) else []  # noqa: E731
        S = ctx.call(lambda: A + B)
        refs_equal(ctx, "exact-add", S, [P.add(z(fa, i), z(fb, i)) for i in range(n)], "A+B", ex2)
        Dm = ctx.call(lambda: A - B)
        refs_equal(ctx, "exact-sub", Dm, [P.sub(z(fa, i), z(fb, i)) for i in range(n)], "A-B", ex2)
        ctx.outcome(("exact", [[(float(x), float(y)) for x, y in d] for d in Dm.critical_pairs] if hasattr(Dm, "critical_pairs") else repr(Dm)))
        ctx.valid()
        if snap(A) != sA or snap(B) != sB:
            ctx.violation("operand-modified", "A+B / A-B changed an operand", observed=[snap(A)[2], snap(B)[2]], expected=[sA[2], sB[2]], extra=ex2)
        # operands created with compute=False (the landscape is computed on first use): the same results,
        # whichever operand is lazy and whichever operation touches it first
        if sa[0] == "dgm" and sb[0] == "dgm":
            lazy = lambda spec: PersLandscapeExact(dgms=[np.array(spec[1], dtype=float)], hom_deg=0, compute=False)  # noqa: E731
            want_sub = [P.sub(z(fa, i), z(fb, i)) for i in range(n)]
            want_add = [P.add(z(fa, i), z(fb, i)) for i in range(n)]
            refs_equal(ctx, "exact-lazy-operand", ctx.call(lambda: A - lazy(sb)), want_sub, "A - (lazy B)", ex2)
            refs_equal(ctx, "exact-lazy-operand", ctx.call(lambda: lazy(sa) - B), want_sub, "(lazy A) - B", ex2)
            refs_equal(ctx, "exact-lazy-operand", ctx.call(lambda: lazy(sa) - lazy(sb)), want_sub, "(lazy A) - (lazy B)", ex2)
            refs_equal(ctx, "exact-lazy-operand", ctx.call(lambda: lazy(sa) + lazy(sb)), want_add, "(lazy A) + (lazy B)", ex2)
            Lb = lazy(sb)
            refs_equal(ctx, "exact-lazy-operand", ctx.call(lambda: -Lb), [P.scale(f, -1) for f in fb], "-(lazy B)", ex2)
            refs_equal(ctx, "exact-lazy-operand", ctx.call(lambda: 2 * lazy(sb)), [P.scale(f, 2) for f in fb], "2 * (lazy B)", ex2)
        # the same pair translated to negative abscissae (a breakpoint at exactly 0) and rescaled
        for c_, a_ in ((-2.0, 1.0), (0.0, 1e-6)):
            tr = lambda pl: PersLandscapeExact(critical_pairs=[[[a_ * x + c_, a_ * y] for x, y in d] for d in pl.critical_pairs], hom_deg=0)  # noqa: E731
            A2, B2 = tr(A), tr(B)
            fa2, fb2 = lsops.exact_ref(A2), lsops.exact_ref(B2)
            D2 = ctx.call(lambda: A2 - B2)
            refs_equal_tol(ctx, "exact-sub", D2, [P.sub(z(fa2, i), z(fb2, i)) for i in range(n)], "A-B (x -> %r*x%+r)" % (a_, c_), ex2, TOL * a_)


def grid_row(case, ctx):
    from persim import PersLandscapeApprox

    grid = lsops.GRIDS[case["grid"]]
    specs = lsops.approx_operand_specs(grid, ctx.tier)
    sa = specs[case["i"]]
    with contextlib.redirect_stdout(io.StringIO()):
        A = lsops.build_approx(sa, grid)
    va = np.asarray(A.values, dtype=float).copy()
    sA = snap(A)
    ex = {"grid": grid, "A": sa}
    vals_equal(ctx, "grid-neg", ctx.call(lambda: -A), -va, grid, "-A", ex)
    for c in SCALARS:
        vals_equal(ctx, "grid-mul", ctx.call(lambda: A * c), c * va, grid, "A*%r" % c, ex)
        vals_equal(ctx, "grid-mul", ctx.call(lambda: c * A), c * va, grid, "%r*A" % c, ex)
        if c != 0:
            vals_equal(ctx, "grid-div", ctx.call(lambda: A / c), va / c, grid, "A/%r" % c, ex)
    must_raise(ctx, "grid-div-zero", "A/0", lambda: A / 0, ex)
    start, stop, num = grid
    for what, kw in (("hom_deg", dict(start=start, stop=stop, num_steps=num, hom_deg=1)),
                     ("start", dict(start=start - 0.5, stop=stop, num_steps=num, hom_deg=0)),
                     ("stop", dict(start=start, stop=stop + 1.0, num_steps=num, hom_deg=0)),
                     ("num_steps", dict(start=start, stop=stop, num_steps=num + 1, hom_deg=0))):
        Q = PersLandscapeApprox(values=np.zeros((1, kw["num_steps"])) + 1.0, **kw)
        must_raise(ctx, "grid-mismatch", "A + (landscape with another %s)" % what, lambda: A + Q, ex)
        must_raise(ctx, "grid-mismatch", "A - (landscape with another %s)" % what, lambda: A - Q, ex)
        must_raise(ctx, "grid-mismatch", "(landscape with another %s) + A" % what, lambda: Q + A, ex)
        must_raise(ctx, "grid-mismatch", "(landscape with another %s) - A" % what, lambda: Q - A, ex)
    # the same mismatches at a tiny numeric scale and far from the origin (a tolerance-based grid
    # comparison would accept them)
    for what, g1, g2 in (("stop, grid scaled by 1e-9", (start * 1e-9, stop * 1e-9), (start * 1e-9, stop * 1.5e-9)),
                         ("start, grid scaled by 1e-9", (start * 1e-9, stop * 1e-9), (start * 1e-9 - 1e-9, stop * 1e-9)),
                         ("start, grid shifted by 1e6", (start + 1e6, stop + 1e6), (start + 1e6 + 0.25, stop + 1e6)),
                         ("stop, grid shifted by 1e6", (start + 1e6, stop + 1e6), (start + 1e6, stop + 1e6 + 0.5))):
        A1 = PersLandscapeApprox(values=va.copy(), start=g1[0], stop=g1[1], num_steps=num, hom_deg=0)
        Q1 = PersLandscapeApprox(values=va.copy(), start=g2[0], stop=g2[1], num_steps=num, hom_deg=0)
        must_raise(ctx, "grid-mismatch", "A + (landscape with another %s)" % what, lambda: A1 + Q1, ex)
        must_raise(ctx, "grid-mismatch", "(landscape with another %s) - A" % what, lambda: Q1 - A1, ex)
    ctx.valid()
    if snap(A) != sA:
        ctx.violation("operand-modified", "a unary/scalar operation changed its operand", extra=ex)
    partners = specs if num == 3 else specs[:: max(1, len(specs) // 16)]
    for sb in partners:
        with contextlib.redirect_stdout(io.StringIO()):
            B = lsops.build_approx(sb, grid)
        vb = np.asarray(B.values, dtype=float).copy()
        sB = snap(B)
        ctx.state(("grid", grid, sa, sb))
        ex2 = {"grid": grid, "A": sa, "B": sb}
        pa, pb = pad(va, vb)
        if va.shape != vb.shape:
            ctx.nontriv("different_depth_counts", key=("grid", grid, sa, sb))
        S = ctx.call(lambda: A + B)
        vals_equal(ctx, "grid-add", S, pa + pb, grid, "A+B", ex2)
        Dm = ctx.call(lambda: A - B)
        vals_equal(ctx, "grid-sub", Dm, pa - pb, grid, "A-B", ex2)
        ctx.outcome(("grid", (pa - pb).tolist()))
        ctx.valid()
        if snap(A) != sA or snap(B) != sB:
            ctx.violation("operand-modified", "A+B / A-B changed an operand", extra=ex2)
        # grid operands created with compute=False
        if sa[0] == "dgm" and sb[0] == "dgm":
            glazy = lambda spec: PersLandscapeApprox(dgms=[np.array(spec[1], dtype=float)], hom_deg=0, start=start, stop=stop, num_steps=num, compute=False)  # noqa: E731
            with contextlib.redirect_stdout(io.StringIO()):
                vals_equal(ctx, "grid-lazy-operand", ctx.call(lambda: A - glazy(sb)), pa - pb, grid, "A - (lazy B)", ex2)
                vals_equal(ctx, "grid-lazy-operand", ctx.call(lambda: glazy(sa) + glazy(sb)), pa + pb, grid, "(lazy A) + (lazy B)", ex2)
                vals_equal(ctx, "grid-lazy-operand", ctx.call(lambda: -glazy(sb)), -vb, grid, "-(lazy B)", ex2)
                vals_equal(ctx, "grid-lazy-operand", ctx.call(lambda: 3 * glazy(sa)), 3 * va, grid, "3 * (lazy A)", ex2)
        # operands whose value arrays have DIFFERENT dtypes: an integer-typed array against half of the partner
        # (fractional values); the result is the pointwise operation in floating point whatever the operand order
        if np.all(va == np.round(va)):
            for dt in (np.int64, np.int16):
                Ai = PersLandscapeApprox(values=va.astype(dt), start=start, stop=stop, num_steps=num, hom_deg=0)
                Bh = PersLandscapeApprox(values=0.5 * vb + 0.25 * (vb != 0), start=start, stop=stop, num_steps=num, hom_deg=0)
                vbh = np.asarray(Bh.values, dtype=float)
                pai, pbh = pad(va, vbh)
                vals_equal(ctx, "grid-add-mixed-dtype", ctx.call(lambda: Ai + Bh), pai + pbh, grid, "A(%s) + B/2" % np.dtype(dt), ex2)
                vals_equal(ctx, "grid-add-mixed-dtype", ctx.call(lambda: Bh + Ai), pai + pbh, grid, "B/2 + A(%s)" % np.dtype(dt), ex2)
                vals_equal(ctx, "grid-sub-mixed-dtype", ctx.call(lambda: Ai - Bh), pai - pbh, grid, "A(%s) - B/2" % np.dtype(dt), ex2)
                vals_equal(ctx, "grid-sub-mixed-dtype", ctx.call(lambda: Bh - Ai), pbh - pai, grid, "B/2 - A(%s)" % np.dtype(dt), ex2)


def interp_ref(pl, target):
    """Linear interpolation of every depth of a grid landscape at the target nodes (0 outside)."""
    fs = lsops.approx_ref(pl)
    return np.array([[float(P.ev(f, float(t))) for t in target] for f in fs])


def snap_checks(ctx):
    from persim import PersLandscapeApprox
    from persim.landscapes import average_approx, lc_approx, snap_pl

    dg = [[[0.0, 2.0]], [[0.0, 2.0], [1.0, 3.0]], [[1.0, 2.0], [0.0, 3.0], [1.0, 3.0]], [[0.0, 1.0], [2.0, 3.0]]]
    srcs, src_specs = [], []
    with contextlib.redirect_stdout(io.StringIO()):
        for d in dg:
            for (s, e, n) in ((0.0, 3.0, 4), (0.0, 3.0, 7), (-1.0, 4.0, 6), (0.0, 4.0, 9)):
                srcs.append(PersLandscapeApprox(dgms=[np.array(d)], hom_deg=0, start=s, stop=e, num_steps=n))
                src_specs.append((d, s, e, n))
        hand = [PersLandscapeApprox(values=np.array(v, dtype=float), hom_deg=0, start=0.0, stop=3.0, num_steps=4)
                for v in ([[0, 1, 2, 0]], [[0, -1, 1, 0], [0, 2, 0, 0]], [[0, 2, 2, 0]])]
    pool = srcs + hand
    # sources on DECIMAL grids (step 0.1 / 0.05 / 0.2, starting a whole number of steps inside the common grid:
    # quotients such as 0.3/0.1 = 2.9999999999999996): a copy-at-an-offset shortcut must land on the right node
    dec = []
    with contextlib.redirect_stdout(io.StringIO()):
        for (s_, e_, n_) in ((0.0, 2.0, 21), (0.3, 1.3, 11), (0.7, 1.9, 13), (0.6, 2.0, 15), (0.15, 0.95, 17), (0.0, 1.0, 21), (1.2, 2.0, 5), (0.0, 2.0, 11)):
            xs = np.linspace(s_, e_, n_)
            vals = np.maximum(0.0, np.minimum(xs - s_, e_ - xs))          # a tent over the whole source grid (edges 0)
            vals2 = np.maximum(0.0, 0.5 * np.minimum(xs - s_, e_ - xs) - 0.05)
            dec.append(PersLandscapeApprox(values=np.array([vals, vals2]), hom_deg=0, start=s_, stop=e_, num_steps=n_))
    for a in range(len(dec)):
        for b in range(len(dec)):
            pls = [dec[a], dec[b]]
            for kw in ({}, {"start": 0.0, "stop": 2.0, "num_steps": 21}, {"start": 0.0, "stop": 2.0, "num_steps": 41}):
                start = kw.get("start", min(p.start for p in pls))
                stop = kw.get("stop", max(p.stop for p in pls))
                num = kw.get("num_steps", max(p.num_steps for p in pls))
                target = np.linspace(start, stop, num)
                ctx.state(("snap-decimal", a, b, sorted(kw.items())))
                out = ctx.call(snap_pl, pls, **kw)
                ctx.valid()
                if len(out) != 2:
                    ctx.violation("snap_pl", "snap_pl must return one landscape per input", observed=len(out))
                    continue
                for o, p_ in zip(out, pls):
                    vals_equal(ctx, "snap_pl-decimal-grid", o, interp_ref(p_, target), (start, stop, num), "snap_pl on decimal grids", {"operands": [a, b], "kw": kw})
                pa, pb = pad(interp_ref(pls[0], target), interp_ref(pls[1], target))
                vals_equal(ctx, "lc_approx-decimal-grid", ctx.call(lc_approx, pls, [2.0, -0.5], **kw), 2.0 * pa - 0.5 * pb, (start, stop, num), "lc_approx on decimal grids", {"operands": [a, b], "kw": kw})
    import itertools

    # landscapes of different homological degree cannot be combined, on whatever grids they live
    other_deg = PersLandscapeApprox(values=np.array([[0.0, 1.0, 1.0, 0.0]]), hom_deg=1, start=0.0, stop=3.0, num_steps=4)
    for a in range(0, len(pool), 3):
        must_raise(ctx, "degree-mismatch-combination", "lc_approx of landscapes with different homological degrees", lambda: lc_approx([pool[a], other_deg], [1.0, 1.0]), {"operand": a})
        must_raise(ctx, "degree-mismatch-combination", "average_approx of landscapes with different homological degrees", lambda: average_approx([other_deg, pool[a]], num_steps=5), {"operand": a})
    for a, b in itertools.product(range(len(pool)), repeat=2):
        pls = [pool[a], pool[b]]
        snaps = [snap(p) for p in pls]
        kws = [{}, {"start": -1.0, "stop": 4.0, "num_steps": 11}, {"num_steps": 5}]
        # only num_steps given: down- and up-sampling on the sources' own range, node counts that do / do not
        # divide the source's (a strided shortcut is right only when the INTERVAL counts divide)
        kws += [{"num_steps": k} for k in ((2, 3, 4, 6, 7, 8, 12, 13) if a == b or (a + b) % 3 == 0 else (2, 3))]
        if all(np.all(np.asarray(p.values)[:, [0, -1]] == 0) for p in pls):
            # explicit bounds of exactly 0 (falsy!) and a grid strictly inside the sources' range
            kws += [{"start": 0.0, "stop": 3.0, "num_steps": 7}, {"start": 0, "stop": 4.0}, {"start": -2.0, "stop": 0.0, "num_steps": 5}]
        for kw in kws:
            start = kw.get("start", min(p.start for p in pls))
            stop = kw.get("stop", max(p.stop for p in pls))
            num = kw.get("num_steps", max(p.num_steps for p in pls))
            target = np.linspace(start, stop, num)
            ctx.state(("snap", a, b, sorted(kw.items())))
            out = ctx.call(snap_pl, pls, **kw)
            ex = {"operands": [a, b], "kw": kw}
            ctx.valid()
            if len(out) != 2:
                ctx.violation("snap_pl", "snap_pl must return one landscape per input", observed=len(out), extra=ex)
                continue
            refs = [interp_ref(p, target) for p in pls]
            for o, r in zip(out, refs):
                vals_equal(ctx, "snap_pl", o, r, (start, stop, num), "snap_pl", ex)
            coeffs = [2.0, -0.5]
            pa, pb = pad(refs[0], refs[1])
            lc = ctx.call(lc_approx, pls, coeffs, **kw)
            vals_equal(ctx, "lc_approx", lc, coeffs[0] * pa + coeffs[1] * pb, (start, stop, num), "lc_approx", ex)
            av = ctx.call(average_approx, pls, **kw)
            vals_equal(ctx, "average_approx", av, 0.5 * pa + 0.5 * pb, (start, stop, num), "average_approx", ex)
            if a < len(srcs) and b < len(srcs) and kw in kws[:2]:
                # the same sources built with compute=False (fresh objects per call: the tool is the first user)
                def lazy_pair():
                    with contextlib.redirect_stdout(io.StringIO()):
                        return [PersLandscapeApprox(dgms=[np.array(d_)], hom_deg=0, start=s_, stop=e_, num_steps=n_, compute=False)
                                for (d_, s_, e_, n_) in (src_specs[a], src_specs[b])]

                lo_ = ctx.call(snap_pl, lazy_pair(), **kw)
                for o, r in zip(lo_, refs):
                    vals_equal(ctx, "snap_pl-lazy", o, r, (start, stop, num), "snap_pl of compute=False sources", ex)
                vals_equal(ctx, "lc_approx-lazy", ctx.call(lc_approx, lazy_pair(), coeffs, **kw), coeffs[0] * pa + coeffs[1] * pb, (start, stop, num), "lc_approx of compute=False sources", ex)
                vals_equal(ctx, "average_approx-lazy", ctx.call(average_approx, lazy_pair(), **kw), 0.5 * pa + 0.5 * pb, (start, stop, num), "average_approx of compute=False sources", ex)
                ctx.nontriv("tools_on_deferred_sources", key=("lazy", a, b))
            ctx.outcome(("snap", np.round(pa + pb, 9).tolist()))
            ctx.valid()
            if [snap(p) for p in pls] != snaps:
                ctx.violation("operand-modified", "snap_pl/lc_approx/average_approx changed an operand", extra=ex)
            if a != b and (pls[0].start, pls[0].stop, pls[0].num_steps) != (pls[1].start, pls[1].stop, pls[1].num_steps):
                ctx.nontriv("different_source_grids", key=("snap", a, b))


def long_lists(ctx):
    """lc_approx / average_approx / snap_pl on lists of 5..7 landscapes of DIFFERENT depth counts, in
    several orders (deepest first / last / in the middle)."""
    from persim import PersLandscapeApprox
    from persim.landscapes import average_approx, lc_approx, snap_pl

    grid = (0.0, 6.0, 13)
    target = np.linspace(*grid)
    stacks = [[[0.0, 6.0]], [[0.0, 6.0], [1.0, 5.0]], [[0.0, 4.0], [1.0, 6.0], [2.0, 5.0]], [[0.0, 6.0], [0.5, 5.5], [1.0, 5.0], [1.5, 4.5]],
              [[0.0, 6.0], [0.5, 5.5], [1.0, 5.0], [1.5, 4.5], [2.0, 4.0]], [[2.0, 3.0]], [[0.0, 3.0], [3.0, 6.0], [1.0, 2.0]]]
    with contextlib.redirect_stdout(io.StringIO()):
        pls = [PersLandscapeApprox(dgms=[np.array(d)], hom_deg=0, start=grid[0], stop=grid[1], num_steps=grid[2]) for d in stacks]
    orders = [list(range(7)), list(range(7))[::-1], [3, 0, 4, 1, 6, 2, 5], [0, 1, 2, 3, 4], [5, 6, 0, 4, 2], [4, 3, 2, 1, 0, 5]]
    for order in orders:
        lst = [pls[i] for i in order]
        snaps = [snap(p) for p in lst]
        coeffs = [1.0 + 0.5 * k * (-1) ** k for k in range(len(lst))]
        ctx.state(("long-list", order))
        ctx.nontriv("list_of_%d_landscapes_mixed_depths" % len(lst), key=("long-list", order))
        depth = max(np.asarray(p.values).shape[0] for p in lst)
        want = np.zeros((depth, grid[2]))
        for cf, p in zip(coeffs, lst):
            v = np.asarray(p.values, dtype=float)
            want[: v.shape[0]] += cf * v
        ex = {"order": order}
        vals_equal(ctx, "lc_approx", ctx.call(lc_approx, lst, coeffs), want, grid, "lc_approx of %d landscapes" % len(lst), ex)
        wavg = np.zeros((depth, grid[2]))
        for p in lst:
            v = np.asarray(p.values, dtype=float)
            wavg[: v.shape[0]] += v / len(lst)
        vals_equal(ctx, "average_approx", ctx.call(average_approx, lst), wavg, grid, "average_approx of %d landscapes" % len(lst), ex)
        out = ctx.call(snap_pl, lst)
        ctx.valid()
        if len(out) != len(lst) or any(not np.allclose(np.asarray(o.values), np.asarray(p.values), atol=1e-12) for o, p in zip(out, lst)):
            ctx.violation("snap_pl", "snap_pl of %d landscapes on their common grid changed values / order" % len(lst), extra=ex)
        ctx.valid()
        if [snap(p) for p in lst] != snaps:
            ctx.violation("operand-modified", "lc_approx/average_approx/snap_pl changed an operand", extra=ex)


# ---------------------------------------------------------------------------------------------
# B: histories on shared operands
# ---------------------------------------------------------------------------------------------
HM = lsops.handmade_functions()
POOLS = [
    {"cls": "exact", "ops": [("cp", [HM[12]]), ("cp", [HM[30]])]},
    {"cls": "exact", "ops": [("dgm", [[0.0, 2.0], [1.0, 3.0]]), ("cp", [HM[7]])]},
    {"cls": "exact", "ops": [("dgm", [[0.0, 3.0]]), ("dgm", [[1.0, 2.0], [0.0, 2.0]])]},
    {"cls": "exact", "ops": [("cp", [HM[20], HM[5]]), ("cp", [HM[33]]), ("dgm", [[0.0, 1.0]])]},
    {"cls": "grid", "grid": 0, "ops": [("vals", [[0.0, 1.0, 0.0]]), ("vals", [[2.0, -1.0, 1.0], [0.0, 1.0, 0.0]])]},
    {"cls": "grid", "grid": 1, "ops": [("dgm", [[0.0, 2.0], [1.0, 3.0]]), ("vals", [[0.0, 2.0, -1.0, 0.0]])]},
    {"cls": "grid", "grid": 2, "ops": [("vals", [[0.0, 1.0, 2.0, 1.0, 0.0]]), ("dgm", [[0.0, 3.0]]), ("vals", [[1.0, 1.0, 1.0, 1.0, 1.0]])]},
]


def ops_for(n):
    ops = []
    for i in range(n):
        for j in range(n):
            ops.append(["add", i, j])
            ops.append(["sub", i, j])
        ops.append(["neg", i])
        ops.append(["mul", i, -2])
        ops.append(["mul", i, 0.5])
        ops.append(["div", i, 3])
        ops.append(["norm", i])
    return ops


def first_ops_count(pi):
    return len(ops_for(len(POOLS[pi]["ops"])))


def build_pool(init):
    with contextlib.redirect_stdout(io.StringIO()):
        if init["cls"] == "exact":
            objs = [lsops.build_exact(tuple(s)) for s in init["ops"]]
            refs = [lsops.exact_ref(o) for o in objs]
        else:
            grid = lsops.GRIDS[init["grid"]]
            objs = [lsops.build_approx(tuple(s), grid) for s in init["ops"]]
            refs = [np.asarray(o.values, dtype=float).copy() for o in objs]
    return objs, refs


def ref_apply(cls, refs, op):
    if cls == "exact":
        z = lambda fs, i: fs[i] if i < len(fs) else []  # noqa: E731
        if op[0] in ("add", "sub"):
            a, b = refs[op[1]], refs[op[2]]
            n = max(len(a), len(b))
            f = P.add if op[0] == "add" else P.sub
            return [f(z(a, i), z(b, i)) for i in range(n)]
        if op[0] == "neg":
            return [P.scale(f, -1) for f in refs[op[1]]]
        if op[0] == "mul":
            return [P.scale(f, op[2]) for f in refs[op[1]]]
        if op[0] == "div":
            return [P.scale(f, P.F(1) / P.F(op[2])) for f in refs[op[1]]]
    else:
        if op[0] in ("add", "sub"):
            a, b = pad(refs[op[1]], refs[op[2]])
            return a + b if op[0] == "add" else a - b
        if op[0] == "neg":
            return -refs[op[1]]
        if op[0] == "mul":
            return op[2] * refs[op[1]]
        if op[0] == "div":
            return refs[op[1]] / op[2]
    return None


def real_apply(ctx, objs, op):
    ctx.trans()
    if op[0] == "add":
        return objs[op[1]] + objs[op[2]]
    if op[0] == "sub":
        return objs[op[1]] - objs[op[2]]
    if op[0] == "neg":
        return -objs[op[1]]
    if op[0] == "mul":
        return op[2] * objs[op[1]] if op[2] < 0 else objs[op[1]] * op[2]
    if op[0] == "div":
        return objs[op[1]] / op[2]
    if op[0] == "norm":
        objs[op[1]].p_norm(2)
        objs[op[1]].sup_norm()
        return None
    raise ValueError(op)


def member_ok(ctx, cls, init, obj, ref, what, extra):
    if cls == "exact":
        return refs_equal(ctx, "history-member", obj, ref, what, extra)
    return vals_equal(ctx, "history-member", obj, ref, lsops.GRIDS[init["grid"]], what, extra)


def run_history(case, ctx):
    init, ops = case["init"], case["ops"]
    cls = init["cls"]
    objs, refs = build_pool(init)
    n0 = len(objs)
    originals = [snap(o) for o in objs]
    for op in ops:
        r = real_apply(ctx, objs, op)
        rr = ref_apply(cls, refs, op)
        if r is not None:
            objs.append(r)
            refs.append(rr)
    ex = {"pool": init, "ops": ops}
    # invariant: every pool member equals its reference; the original operands are byte-identical
    ok = True
    for i, (o, r) in enumerate(zip(objs, refs)):
        ok = member_ok(ctx, cls, init, o, r, "pool member %d after %r" % (i, ops), ex) and ok
    ctx.valid()
    if [snap(o) for o in objs[:n0]] != originals:
        ctx.violation("operand-modified", "an original operand changed after %r" % (ops,), extra=ex)
        ok = False
    if any(op[0] in ("add", "sub", "neg", "mul", "div") and max(op[1], op[2] if op[0] in ("add", "sub") else 0) >= n0 for op in ops):
        ctx.nontriv("history_reuses_a_result")
    if not ok:
        return None
    if cls == "exact":
        key = [[[(float(x), float(y)) for x, y in f] for f in r] for r in refs]
    else:
        key = [np.round(r, 9).tolist() for r in refs]
    ctx.outcome(key[-1])
    return (cls, key)


class _M:
    DETERMINISTIC = True

    @staticmethod
    def run_case(case, ctx):
        run_case(case, ctx)


def hist_bfs(case, ctx):
    init = POOLS[case["pool"]]
    depth = 2 if ctx.tier == "quick" else 3
    n0 = len(init["ops"])
    first = ops_for(n0)[case["first"]]

    def ops(init_, hist):
        # pool size after prefix [first] + hist
        size = n0 + sum(1 for o in [first] + list(hist) if o[0] != "norm")
        return ops_for(size)

    history.bfs(ctx, _M, [init], ops, depth - 1, run_history, prefix=[first], diff_continuation=False)
    # longer histories (4 operations; thorough 5) over a reduced operation menu, first two pools only
    if case["pool"] in (0, 4) and first[0] in ("add", "sub", "neg"):
        def red(init_, hist):
            size = n0 + sum(1 for o in [first] + list(hist) if o[0] != "norm")
            last = size - 1
            return [["add", 0, last], ["sub", last, 1], ["neg", last], ["mul", last, -2], ["div", 0, 3], ["norm", last], ["add", last, last]]

        history.bfs(ctx, _M, [init], red, (3 if ctx.tier == "quick" else 4), run_history, prefix=[first], diff_continuation=False, dedup=False)
