"""Operand sets shared by C09 / C10: exact and grid landscapes (DESIGN.md section 4, C09)."""
import itertools

import numpy as np

from mc.enumerate import bars, multisets_upto
from oracles import plfun as P


def handmade_functions():
    """Continuous compactly supported PL functions: abscissae subset of {0,1,2,3} (>= 2 of them),
    interior ordinates in {-1,0,1,2}, first/last ordinate 0  (38 functions)."""
    out = []
    for size in (2, 3, 4):
        for xs in itertools.combinations((0, 1, 2, 3), size):
            for ys in itertools.product((-1, 0, 1, 2), repeat=size - 2):
                out.append([[float(x), float(y)] for x, y in zip(xs, (0,) + ys + (0,))])
    return out


def diagram_operands(n=2, G=3):
    return [[list(map(float, b)) for b in m] for m in multisets_upto(bars(G), n, min_size=1)]


TWO_DEPTH = [(5, 20), (20, 5), (12, 12), (30, 7), (9, 33), (37, 21)]


DEEP_DIAGRAMS = [
    [[0.0, 6.0], [1.0, 5.0], [2.0, 4.0]],
    [[0.0, 4.0], [1.0, 6.0], [2.0, 3.0], [2.5, 5.5], [3.0, 7.0]],
    [[0.0, 3.0], [0.0, 5.0], [1.0, 4.0], [1.0, 2.0], [2.0, 6.0], [3.0, 5.0]],
    [[-2.0, 2.0], [-1.0, 3.0], [0.0, 1.0], [0.5, 2.5], [1.0, 4.0], [1.5, 2.0], [-1.5, 0.5]],
]
MULTI_DEPTH = [(5, 20, 33), (12, 12, 7, 30), (37, 9, 21, 14, 5)]


def exact_operand_specs(tier="quick"):
    """Specs (JSON-able) of exact operands: ('dgm', bars) | ('cp', [depth lists])."""
    specs = [("dgm", d) for d in diagram_operands(2, 3)]
    hm = handmade_functions()
    specs += [("cp", [f]) for f in hm]
    specs += [("cp", [hm[i], hm[j]]) for i, j in TWO_DEPTH]
    # landscapes with 3..7 depths (diagrams of overlapping bars without repeated bars, hand-made stacks)
    specs += [("dgm", d) for d in DEEP_DIAGRAMS]
    specs += [("cp", [hm[i] for i in idx]) for idx in MULTI_DEPTH]
    return specs


def build_exact(spec):
    from persim import PersLandscapeExact

    kind, data = spec
    if kind == "dgm":
        return PersLandscapeExact(dgms=[np.array(data, dtype=float)], hom_deg=0)
    return PersLandscapeExact(critical_pairs=[[list(p) for p in depth] for depth in data], hom_deg=0)


def exact_ref(pl):
    """Reference PL functions (Fractions) of a PersLandscapeExact, read from its critical pairs."""
    return [P.make([(float(x), float(y)) for x, y in depth]) for depth in pl.critical_pairs]


GRIDS = [(0.0, 2.0, 3), (0.0, 3.0, 4), (-1.0, 3.0, 5)]


def approx_value_sets(num_steps, tier="quick"):
    vals = (-1.0, 0.0, 1.0, 2.0)
    if num_steps == 3:
        return [list(v) for v in itertools.product(vals, repeat=3)]
    if num_steps == 4:
        allv = [list(v) for v in itertools.product(vals, repeat=4)]
        return allv if tier == "thorough" else allv[::5]
    allv = [list(v) for v in itertools.product(vals, repeat=num_steps)]
    return allv[::7] if tier == "thorough" else allv[::41]


def approx_operand_specs(grid, tier="quick"):
    """Specs of grid operands on one grid: ('vals', [[...depth1...], ...]) | ('dgm', bars)."""
    start, stop, n = grid
    one = approx_value_sets(n, tier)
    specs = [("vals", [v]) for v in one]
    specs += [("vals", [one[i % len(one)], one[j % len(one)]]) for i, j in TWO_DEPTH]
    specs += [("vals", [one[i % len(one)] for i in idx]) for idx in MULTI_DEPTH]
    for d in diagram_operands(2, 2 if stop <= 2 else 3):
        if all(start <= b and dd <= stop for b, dd in d):
            specs.append(("dgm", d))
    return specs


def build_approx(spec, grid):
    from persim import PersLandscapeApprox

    start, stop, n = grid
    kind, data = spec
    if kind == "dgm":
        return PersLandscapeApprox(dgms=[np.array(data, dtype=float)], hom_deg=0, start=start, stop=stop, num_steps=n)
    return PersLandscapeApprox(values=np.array(data, dtype=float), hom_deg=0, start=start, stop=stop, num_steps=n)


def approx_ref(pl):
    """Reference PL functions of a PersLandscapeApprox: linear interpolation of every depth on its grid."""
    grid = np.linspace(pl.start, pl.stop, pl.num_steps)
    return [P.make(list(zip(grid.tolist(), [float(v) for v in depth]))) for depth in np.asarray(pl.values, dtype=float)]
