"""C01 — bottleneck distance = true min-max matching cost (explorers A + C)."""
import itertools

import numpy as np

from checks.common import AFF, INF, aff, farr, iarr, scale_of, call_warn, pair_cases, is_num, medium_diagram
from mc.enumerate import lattice_points, distinct_permutations
from mc.seams import HKSeam
from oracles import matching as om

CALL_VARIANTS = 3    # (every third eligible call)   # every whitelisted persim call is repeated with its arrays in another memory layout (mc/ctx.py)
PROPERTY = "C01"
HASH_GROUPS = {"quick": 2, "thorough": 4}
RULE = (
    "all ordered pairs (S,T) of multisets of <= n points of the integer lattice {0<=b<=d<=G} "
    "(diagonal points, repeats, empty diagram included); per pair: 5 affine variants, all row "
    "permutations, list/int/float containers, appended infinite-death points, ALL rank orders of "
    "the matching routine's string-keyed sets (M+N <= bound), each under K real PYTHONHASHSEEDs; plus medium "
    "diagrams of 4..12 (thorough ..20) points (half-integer-rounded and generic Weyl families), all ordered pairs "
    "against an independent threshold-search reference under ~20 systematic rank orders each. "
    "state = one (S,T) pair; transition = one execution of persim.bottleneck; non-trivial = the "
    "optimum mixes diagonal and cross pairings, or candidate thresholds tie, or the optimum is "
    "strictly inside the candidate list."
    " No warning about non-finite deaths on all-finite input."
)
ASSUMPTIONS = [
    "oracle: brute force over all partial matchings (oracles/matching.py)",
    "hash-seed quantifier: all consistent rank orders for small M+N plus K real seeds, not 2^32 seeds",
]
BOUNDS = {
    "quick": [{"n": 2, "G": 3, "rank_bound": 4}, {"n": 3, "G": 2, "rank_bound": 4},
              {"n": 3, "alphabet": [[0, 1], [2, 3], [0, 3], [1, 2], [3, 3]], "rank_bound": 4}],
    "thorough": [{"n": 3, "G": 3, "rank_bound": 5}, {"n": 4, "G": 2, "rank_bound": 4}],
}


def bounds(tier):
    return {"spaces": BOUNDS[tier], "aff": AFF, "hash_groups": HASH_GROUPS[tier], "medium_family": MEDIUM[tier]}


MEDIUM = {"quick": {"n": [4, 5, 6, 8, 10, 12], "k": 2}, "thorough": {"n": [4, 5, 6, 7, 8, 10, 12, 15, 20], "k": 5}}


def medium_members(tier):
    m = MEDIUM[tier]
    return [(n, k, lat) for lat in (True, False) for n in m["n"] for k in range(m["k"])]


# beyond 64 points in total the cost matrix has more than 4096 entries (size-triggered search strategies)
LARGER_PAIRS = [(33, 40), (40, 33), (33, 70), (70, 40), (40, 40), (70, 70), (66, 3), (2, 90)]


def cases(tier):
    for na, nb in LARGER_PAIRS:
        for lat in (True, False):
            yield {"kind": "medium", "a": [na, 0, lat], "b": [nb, 1, lat], "few_orders": True}
    mem = medium_members(tier)
    for a in range(len(mem)):
        for b in range(len(mem)):
            if mem[a][2] == mem[b][2]:
                yield {"kind": "medium", "a": list(mem[a]), "b": list(mem[b])}
    for c in small_cases(tier):
        yield c


def small_cases(tier):
    for sp in BOUNDS[tier]:
        alphabet = [tuple(p) for p in sp["alphabet"]] if "alphabet" in sp else lattice_points(sp["G"])
        for c in pair_cases(alphabet, sp["n"]):
            c["rank_bound"] = sp["rank_bound"]
            c["G"] = sp.get("G", 3)
            yield c


_seam = HKSeam()


def check_value(ctx, sig, v, ref, tol, what, S, T):
    ok = is_num(v) and np.isfinite(v) and abs(float(v) - ref) <= tol
    ctx.valid()
    if not ok:
        ctx.violation(sig, "bottleneck(%s) != min-max matching cost" % what, observed=v, expected=ref,
                      extra={"variant": what, "S": S, "T": T})
    return ok


def run_medium(case, ctx):
    """Medium sizes (4..20 points): beyond brute force, reference = threshold search with scipy's
    bipartite matching; hash order explored through a systematic family of rank orders."""
    import persim

    a, b = case["a"], case["b"]
    S, T = medium_diagram(int(a[0]), int(a[1]), bool(a[2])), medium_diagram(int(b[0]), int(b[1]), bool(b[2]))
    ref = om.bottleneck_large_ref(S, T)
    ctx.state(("medium", a, b))
    tol = 0.0 if a[2] else 1e-12
    v, _ = call_warn(ctx, persim.bottleneck, farr(S), farr(T))
    ctx.outcome(round(float(v), 9) if is_num(v) else repr(v))
    check_value(ctx, "value-medium", v, ref, tol, "medium diagrams %r vs %r" % (a, b), S, T)
    if a != b:
        ctx.nontriv("medium_size_pair", key=("medium", a, b))
    k = len(S) + len(T)
    with _seam.installed() as live:
        if live:
            base = list(range(k))
            orders = [base[r:] + base[:r] for r in range(0, k, max(1, k // 8))]
            orders += [o[::-1] for o in orders]
            orders += [base[::2] + base[1::2], base[1::2] + base[::2]]
            if case.get("few_orders"):
                orders = [orders[1], orders[-1]]
            for order in orders:
                HKSeam.set_order(tuple(order))
                vo, _ = call_warn(ctx, persim.bottleneck, farr(S), farr(T))
                ctx.count("rank_orders_executed")
                check_value(ctx, "value-hashorder", vo, ref, tol, "medium diagrams %r vs %r, rank order %r" % (a, b, order), S, T)
    # with matching=True the distance must be the same
    r2, _ = call_warn(ctx, persim.bottleneck, farr(S), farr(T), matching=True)
    ctx.valid()
    if not (isinstance(r2, tuple) and is_num(r2[0]) and abs(float(r2[0]) - ref) <= tol):
        ctx.violation("value-medium", "bottleneck(matching=True) distance differs from the reference", observed=repr(r2[0]) if isinstance(r2, tuple) else repr(r2), expected=ref)


def run_case(case, ctx):
    import persim

    if case.get("kind") == "medium":
        return run_medium(case, ctx)
    S, T = case["S"], case["T"]
    ref, info = om.bottleneck_ref(S, T)
    ctx.state((S, T))
    # --- base call on float arrays: exact on the lattice (all costs are multiples of 1/2)
    v, nw = call_warn(ctx, persim.bottleneck, farr(S), farr(T))
    ctx.outcome(v)
    if nw.claims_nonfinite():
        # "dropped with a warning": the warning says that the diagram HAS points with non-finite death
        ctx.violation("spurious-inf-warning", "warning about non-finite death times on diagrams that have none",
                      observed=nw.messages[:2], expected="no such warning", extra={"S": S, "T": T})
    check_value(ctx, "value", v, ref, 0.0, "float arrays", S, T)
    cand = om.candidate_thresholds(S, T)
    if info["mixed"]:
        ctx.nontriv("optimum_mixes_diagonal_and_cross")
    if len(set(cand)) < len(cand) and len(S) + len(T) > 1:
        ctx.nontriv("threshold_tie")
    if min(cand) < ref < max(cand):
        ctx.nontriv("optimum_strictly_inside_candidates")
    # --- affine variants (non-dyadic scales turn exact ties into near ties)
    for a, c in AFF[1:]:
        S2, T2 = aff(S, a, c), aff(T, a, c)
        r2, _ = om.bottleneck_ref(S2, T2)
        v2, _ = call_warn(ctx, persim.bottleneck, farr(S2), farr(T2))
        check_value(ctx, "value-aff", v2, r2, 1e-12 * scale_of(S2, T2), "affine a=%r c=%r" % (a, c), S2, T2)
    # --- far from the origin at coordinates that are not short binary fractions: |b - b'| and |d - d'| of nearby
    # points are still EXACT in floating point, so the value is matched relative to ITSELF, not to the coordinates
    for a, c in ((1.0 / 3.0, 1048576.0 + 1.0 / 3.0), (1.0, 1.7e9 + 0.1), (0.001, -3e7 - 0.7)):
        Sf, Tf = aff(S, a, c), aff(T, a, c)
        rf, _ = om.bottleneck_ref(Sf, Tf)
        vf, _ = call_warn(ctx, persim.bottleneck, farr(Sf), farr(Tf))
        check_value(ctx, "value-far-offset", vf, rf, 1e-12 * abs(rf), "far offset a=%r c=%r" % (a, c), Sf, Tf)
    # --- every row order (the value may not depend on it)
    if len(S) <= 3 and len(T) <= 3:
        for Sp in distinct_permutations(tuple(map(tuple, S))):
            for Tp in distinct_permutations(tuple(map(tuple, T))):
                if list(map(list, Sp)) == S and list(map(list, Tp)) == T:
                    continue
                vp, _ = call_warn(ctx, persim.bottleneck, farr(Sp), farr(Tp))
                check_value(ctx, "value-perm", vp, ref, 0.0, "row order", Sp, Tp)
    # --- containers
    vl, _ = call_warn(ctx, persim.bottleneck, [list(p) for p in S], [list(p) for p in T])
    check_value(ctx, "value-container", vl, ref, 0.0, "nested lists", S, T)
    if S and T:
        # a diagram given as a Python list / tuple of its ROWS as 1-D arrays (what list(array) produces)
        vr, _ = call_warn(ctx, persim.bottleneck, [np.array(p, dtype=float) for p in S], tuple(np.array(p, dtype=float) for p in T))
        check_value(ctx, "value-container", vr, ref, 0.0, "list / tuple of row arrays", S, T)
    vi, _ = call_warn(ctx, persim.bottleneck, iarr(S), iarr(T))
    check_value(ctx, "value-container", vi, ref, 0.0, "int arrays", S, T)
    # mixed representations: integer array against a fractional float array (and the other way round)
    Th = aff(T, 0.5, 0.25)
    rm, _ = om.bottleneck_ref(S, Th)
    for what, a1, a2, flip in (("int array vs fractional float array", iarr(S), farr(Th), False), ("fractional float array vs int array", farr(Th), iarr(S), True)):
        vm, _ = call_warn(ctx, persim.bottleneck, a1, a2)
        check_value(ctx, "value-mixed-dtype", vm, rm, 0.0, what, Th if flip else S, S if flip else Th)
    # a float32 array (lattice values, exact in single precision) against a float64 array whose values are
    # NOT representable in single precision, both orders: the wider argument must not be rounded to the other's dtype
    Tq = [[x / 3.0 + 0.1 + 1e-9 for x in p_] for p_ in T]
    rq, _ = om.bottleneck_ref(S, Tq)
    S32 = np.array(S, dtype=np.float32).reshape(-1, 2)
    for what, a1, a2, X_, Y_ in (("float32 array vs float64 array", S32, farr(Tq), S, Tq), ("float64 array vs float32 array", farr(Tq), S32, Tq, S)):
        vq, _ = call_warn(ctx, persim.bottleneck, a1, a2)
        check_value(ctx, "value-mixed-dtype", vq, rq, 1e-12, what, X_, Y_)
    # integer-typed arrays with large values / narrow or unsigned dtypes
    for dt, kk in ((np.int64, 4 * 10 ** 9), (np.int32, 50000), (np.uint8, 60), (np.uint8, 85), (np.int16, 10900), (np.int8, 42)):
        if max([x for p_ in S + T for x in p_] or [0]) * kk > np.iinfo(dt).max:
            continue
        Si = (np.array(S, dtype=np.int64).reshape(-1, 2) * kk).astype(dt)
        Ti = (np.array(T, dtype=np.int64).reshape(-1, 2) * kk).astype(dt)
        ri, _ = om.bottleneck_ref(Si.astype(float).tolist(), Ti.astype(float).tolist())
        vi, _ = call_warn(ctx, persim.bottleneck, Si, Ti)
        check_value(ctx, "value-int-dtype", vi, ri, 0.0, "%s arrays x %d" % (np.dtype(dt), kk), Si.tolist(), Ti.tolist())
    if not S or not T:
        ve, _ = call_warn(ctx, persim.bottleneck, np.array(S, dtype=float), np.array(T, dtype=float))
        check_value(ctx, "value-container", ve, ref, 0.0, "np.array([]) for the empty diagram", S, T)
    # --- Mx(>=2) input: columns beyond (birth, death) are annotations (dimension, feature id ...); pairing two
    # points costs the L-infinity distance of the POINTS (b, d)
    if S or T:
        S3c = np.hstack([farr(S), np.arange(len(S), dtype=float).reshape(-1, 1) * 7.0 + 1.0]) if S else np.zeros((0, 3))
        T3c = np.hstack([farr(T), 50.0 - np.arange(len(T), dtype=float).reshape(-1, 1) * 3.0]) if T else np.zeros((0, 3))
        vx, _ = call_warn(ctx, persim.bottleneck, S3c, T3c)
        check_value(ctx, "value-extra-columns", vx, ref, 0.0, "Mx3 arrays with an annotation column", S3c.tolist(), T3c.tolist())
        if S and T:
            vx, _ = call_warn(ctx, persim.bottleneck, S3c, farr(T))
            check_value(ctx, "value-extra-columns", vx, ref, 0.0, "Mx3 array against an Nx2 array", S3c.tolist(), T)
    # --- points with infinite death are dropped, with a warning, without influence
    for addS, addT in (([[0.0, INF]], []), ([], [[1.0, INF], [5.0, INF]]), ([[2.0, INF]], [[0.0, INF]])):
        S3 = addS + [list(map(float, p)) for p in S]
        T3 = [list(map(float, p)) for p in T] + addT
        if len(S) >= 2 and addS:  # also in the middle
            S3 = S3[1:2] + S3[0:1] + S3[2:]
        v3, nw3 = call_warn(ctx, persim.bottleneck, farr(S3), farr(T3))
        check_value(ctx, "value-inf", v3, ref, 0.0, "infinite points appended", S3, T3)
        ctx.valid()
        if nw3 < 1:
            ctx.violation("inf-no-warning", "points with infinite death dropped without a warning",
                          observed=nw3, expected=">=1 warning", extra={"S": S3, "T": T3})
    # --- explorer C: every rank order of the left keys of the matching routine
    k = max(len(S), 1) + max(len(T), 1)
    if k <= case.get("rank_bound", 4):
        with _seam.installed() as live:
            if live:
                before = _seam.used
                for order in HKSeam.all_orders(k):
                    HKSeam.set_order(order)
                    vo, _ = call_warn(ctx, persim.bottleneck, farr(S), farr(T))
                    ctx.count("rank_orders_executed")
                    check_value(ctx, "value-hashorder", vo, ref, 0.0, "rank order %r" % (order,), S, T)
                if _seam.used == before:
                    ctx.count("seam_unused")
            else:
                ctx.count("seam_unused")
