"""C06 — returned matchings certify the reported bottleneck / Wasserstein distance (A + C)."""
import math

import numpy as np

from checks.common import AFF, aff, farr, scale_of, call_warn, pair_cases, is_num, medium_diagram
from mc.enumerate import lattice_points
from mc.seams import HKSeam
from oracles import matching as om

CALL_VARIANTS = 3    # (every third eligible call)   # every whitelisted persim call is repeated with its arrays in another memory layout (mc/ctx.py)
PROPERTY = "C06"
HASH_GROUPS = {"quick": 2, "thorough": 4}
RULE = (
    "all ordered pairs (S,T) of multisets of <= n finite lattice points; both distances with and "
    "without matching=True; affine variants; call sequences on one pair in both argument orders; Mx3 input with an annotation column (bottleneck); bottleneck additionally under ALL rank orders of the "
    "matching routine's string-keyed sets and K real hash seeds. state = (S,T); transition = one "
    "persim call; non-trivial = the returned matching mixes diagonal and cross rows, or different "
    "rank orders returned different (all valid) matchings."
)
ASSUMPTIONS = [
    "any optimal matching is accepted, no tie-break assumed",
    "an empty diagram is read as the one-point diagram {(0,0)}, index 0, as the statement says",
]
BOUNDS = {
    "quick": [{"n": 2, "G": 3, "rank_bound": 4}, {"n": 3, "G": 2, "rank_bound": 4},
              {"n": 3, "alphabet": [[0, 1], [2, 3], [0, 3], [1, 2], [3, 3]], "rank_bound": 4}],
    "thorough": [{"n": 3, "G": 3, "rank_bound": 5}, {"n": 4, "G": 2, "rank_bound": 4}],
}


def bounds(tier):
    return {"spaces": BOUNDS[tier], "aff": AFF[:3] + AFF[4:], "hash_groups": HASH_GROUPS[tier]}


MEDIUM = {"quick": {"n": [5, 6, 8, 11], "k": 2}, "thorough": {"n": [5, 6, 7, 8, 11, 15, 20], "k": 3}}


def medium_members(tier):
    m = MEDIUM[tier]
    return [(n, k, lat) for lat in (True, False) for n in m["n"] for k in range(m["k"])]


def run_medium(case, ctx):
    """Medium sizes: every returned matching must still certify the distance; the distance itself is
    compared with the independent large-diagram references."""
    import persim

    a, b = case["a"], case["b"]
    S, T = medium_diagram(int(a[0]), int(a[1]), bool(a[2])), medium_diagram(int(b[0]), int(b[1]), bool(b[2]))
    ctx.state(("medium", a, b))
    if a != b:
        ctx.nontriv("medium_size_pair", key=("medium", a, b))
    for which, fn, ref, tol in (("bottleneck", persim.bottleneck, om.bottleneck_large_ref(S, T), 1e-12), ("wasserstein", persim.wasserstein, om.wasserstein_large_ref(S, T), 1e-9 * 40)):
        d0, _ = call_warn(ctx, fn, farr(S), farr(T))
        res, _ = call_warn(ctx, fn, farr(S), farr(T), matching=True)
        certify(ctx, which, S, T, d0, res, tol, "medium diagrams %r vs %r" % (a, b))
        ctx.valid()
        if not (is_num(d0) and abs(float(d0) - ref) <= tol * max(1.0, ref)):
            ctx.violation(which + "-aggregate", "distance of medium diagrams differs from the independent reference", observed=d0, expected=ref, extra={"a": a, "b": b})
    ctx.outcome(("medium", a, b))


def run_chain(case, ctx):
    """Hundreds of long bars against their translate, the first diagram stored in a ROTATED order: the optimal
    matching pairs every bar with its own copy (everything else is far more expensive), the matching routine
    needs augmenting paths as long as the graph; the returned rows must still certify the distance."""
    import persim

    n, rot = case["n"], case["rot"]
    X = [[float(i), float(i) + 1000.0] for i in range(n)]
    Y = [[b + 0.6, d + 0.6] for b, d in X]
    Xr = X[rot:] + X[:rot]
    ctx.state(("chain", n, rot))
    d0, _ = call_warn(ctx, persim.bottleneck, farr(Xr), farr(Y))
    res, _ = call_warn(ctx, persim.bottleneck, farr(Xr), farr(Y), matching=True)
    m = certify(ctx, "bottleneck", Xr, Y, d0, res, 1e-9, "chain of %d bars, first diagram rotated by %d" % (n, rot))
    ctx.valid()
    if not (is_num(d0) and abs(float(d0) - 0.6) <= 1e-9):
        ctx.violation("bottleneck-aggregate", "bottleneck of a chain and its translate is not the size of the shift", observed=d0, expected=0.6)
    if m is not None:
        # every bar is paired with its own translate
        wrong = [row.tolist() for row in np.asarray(m) if int(row[0]) >= 0 and int(row[1]) != (int(row[0]) + rot) % n]
        if wrong:
            ctx.violation("bottleneck-row-cost", "a row of the matching of a chain does not pair a bar with its own translate", observed=wrong[:3])
    ctx.nontriv("chain_%d_bars_matching" % n)
    ctx.outcome(("chain", n, rot))


def cases(tier):
    for n, rot in (((560, 187), (530, 1)) if tier == "quick" else ((560, 187), (530, 1), (900, 333))):
        yield {"kind": "chain", "n": n, "rot": rot}
    mem = medium_members(tier)
    for x in range(len(mem)):
        for y in range(len(mem)):
            if mem[x][2] == mem[y][2]:
                yield {"kind": "medium", "a": list(mem[x]), "b": list(mem[y])}
    for c in small_cases(tier):
        yield c


def small_cases(tier):
    for sp in BOUNDS[tier]:
        alphabet = [tuple(p) for p in sp["alphabet"]] if "alphabet" in sp else lattice_points(sp["G"])
        for c in pair_cases(alphabet, sp["n"]):
            c["rank_bound"] = sp["rank_bound"]
            yield c


_seam = HKSeam()


def certify(ctx, which, S, T, d_plain, res, tol, what):
    """Check that `res` = (distance, matching) certifies the distance for diagrams S, T."""
    ctx.valid()
    bad = lambda sig, msg, obs=None, exp=None: ctx.violation(  # noqa: E731
        "%s-%s" % (which, sig), "%s [%s]" % (msg, what), observed=obs, expected=exp,
        extra={"S": S, "T": T, "result": res if not isinstance(res, tuple) else [res[0], res[1]]})
    if not (isinstance(res, tuple) and len(res) == 2):
        return bad("shape", "matching=True must return (distance, matching)", repr(type(res)))
    d, m = res
    if not (is_num(d) and is_num(d_plain)) or not (float(d) == float(d_plain)):
        return bad("distance-differs", "distance with matching=True differs from the plain call", d, d_plain)
    m = np.asarray(m, dtype=float)
    if m.ndim != 2 or m.shape[1] != 3:
        return bad("shape", "matching must be an (k,3) array", list(m.shape))
    S1 = [list(map(float, p)) for p in S] or [[0.0, 0.0]]
    T1 = [list(map(float, p)) for p in T] or [[0.0, 0.0]]
    pair_cost, diag_cost = (om.linf, om.diag_half) if which == "bottleneck" else (om.l2, om.diag_perp)
    seen_i, seen_j, costs = [], [], []
    mixed = [False, False]
    for row in m:
        i, j, c = row
        if i != int(i) or j != int(j):
            return bad("index", "non-integer index in a matching row", row.tolist())
        i, j = int(i), int(j)
        if i == -1 and j == -1:
            return bad("diag-diag-row", "a (-1,-1) row is listed", row.tolist())
        if not (-1 <= i < len(S1)) or not (-1 <= j < len(T1)):
            return bad("index", "index out of range", row.tolist())
        if i >= 0:
            seen_i.append(i)
        if j >= 0:
            seen_j.append(j)
        if i >= 0 and j >= 0:
            want = pair_cost(S1[i], T1[j])
            mixed[0] = True
        elif i >= 0:
            want = diag_cost(S1[i])
            mixed[1] = True
        else:
            want = diag_cost(T1[j])
            mixed[1] = True
        if not (abs(c - want) <= tol):
            return bad("row-cost", "third entry is not the cost of that pairing", row.tolist(), want)
        costs.append(c)
    if sorted(seen_i) != list(range(len(S1))) or sorted(seen_j) != list(range(len(T1))):
        return bad("coverage", "every point must appear in exactly one row",
                   {"rows_i": sorted(seen_i), "rows_j": sorted(seen_j)}, {"M": len(S1), "N": len(T1)})
    total = (max(costs) if costs else 0.0) if which == "bottleneck" else math.fsum(costs)
    if not (abs(total - float(d)) <= tol * max(1, len(costs))):
        return bad("aggregate", "max/sum of the row costs is not the reported distance", total, d)
    if all(mixed):
        ctx.nontriv("matching_mixes_diagonal_and_cross_rows")
    return m


def run_case(case, ctx):
    import persim

    if case.get("kind") == "medium":
        return run_medium(case, ctx)
    if case.get("kind") == "chain":
        return run_chain(case, ctx)
    S, T = case["S"], case["T"]
    ctx.state((S, T))
    variants = [("base", S, T, 0.0, 1e-9)]
    for a, c in AFF[1:3] + AFF[4:]:
        S2, T2 = aff(S, a, c), aff(T, a, c)
        sc = scale_of(S2, T2)
        variants.append(("affine a=%r c=%r" % (a, c), S2, T2, 1e-12 * sc, 1e-9 * sc))
    for what, A, B, tol_b, tol_w in variants:
        for which, fn, tol in (("bottleneck", persim.bottleneck, tol_b), ("wasserstein", persim.wasserstein, tol_w)):
            d0, _ = call_warn(ctx, fn, farr(A), farr(B))
            res, _ = call_warn(ctx, fn, farr(A), farr(B), matching=True)
            certify(ctx, which, A, B, d0, res, tol, what)
            if what == "base":
                ctx.outcome((which, jsonable_matching(res)))
    # call sequences on ONE pair in both argument orders, with and without matching: a result remembered
    # from an earlier call (memo keyed on the unordered pair, reused buffers) must not leak into a later one
    for which, fn in (("bottleneck", persim.bottleneck), ("wasserstein", persim.wasserstein)):
        tol = 1e-9 if which == "wasserstein" else 0.0
        d_st, _ = call_warn(ctx, fn, farr(S), farr(T))
        d_ts, _ = call_warn(ctx, fn, farr(T), farr(S))
        for rnd in range(2):
            res, _ = call_warn(ctx, fn, farr(T), farr(S), matching=True)
            certify(ctx, which, T, S, d_ts, res, tol, "sequence (S,T);(T,S);(T,S,matching) round %d" % rnd)
            res, _ = call_warn(ctx, fn, farr(S), farr(T), matching=True)
            certify(ctx, which, S, T, d_st, res, tol, "sequence ...;(S,T,matching) round %d" % rnd)
            res, _ = call_warn(ctx, fn, farr(T), farr(S), matching=True)
            certify(ctx, which, T, S, d_ts, res, tol, "sequence ...;(T,S,matching) again, round %d" % rnd)
    # extra (annotation) columns beyond (birth, death): the bottleneck pairing cost is the L-infinity distance
    # of the (b, d) points, so the certificate and the distance are those of the two-column diagrams
    if S and T:
        S3 = np.hstack([farr(S), np.arange(len(S), dtype=float).reshape(-1, 1) * 7.0 + 1.0])
        T3 = np.hstack([farr(T), 50.0 - np.arange(len(T), dtype=float).reshape(-1, 1) * 3.0])
        d0, _ = call_warn(ctx, persim.bottleneck, farr(S), farr(T))
        d3, _ = call_warn(ctx, persim.bottleneck, S3, T3)
        ctx.valid()
        if not (is_num(d3) and float(d3) == float(d0)):
            ctx.violation("bottleneck-extra-columns", "bottleneck of Mx3 arrays (third column = annotation) differs from that of their (birth, death) columns",
                          observed=d3, expected=d0, extra={"S": S3.tolist(), "T": T3.tolist()})
        res, _ = call_warn(ctx, persim.bottleneck, S3, T3, matching=True)
        certify(ctx, "bottleneck", S, T, d0, res, 0.0, "Mx3 input with an annotation column")
    # explorer C: the bottleneck matching under every rank order (any optimal matching is fine)
    k = max(len(S), 1) + max(len(T), 1)
    if k <= case.get("rank_bound", 4):
        with _seam.installed() as live:
            if live:
                seen = set()
                d0 = None
                for order in HKSeam.all_orders(k):
                    HKSeam.set_order(order)
                    if d0 is None:
                        d0, _ = call_warn(ctx, persim.bottleneck, farr(S), farr(T))
                    res, _ = call_warn(ctx, persim.bottleneck, farr(S), farr(T), matching=True)
                    ctx.count("rank_orders_executed")
                    m = certify(ctx, "bottleneck", S, T, d0, res, 0.0, "rank order %r" % (order,))
                    if m is not None:
                        seen.add(tuple(map(tuple, np.asarray(m).tolist())))
                if len(seen) > 1:
                    ctx.nontriv("rank_orders_gave_%s_matchings" % ("2" if len(seen) == 2 else "3plus"))
            else:
                ctx.count("seam_unused")


def jsonable_matching(res):
    try:
        return [float(res[0]), np.asarray(res[1]).round(9).tolist()]
    except Exception:  # noqa: BLE001
        return repr(res)
