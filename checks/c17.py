"""C17 — mGH accepts every graph representation and degrades gracefully (explorers A + C)."""
import itertools
import warnings

from checks.common import WarnCount

import numpy as np

from mc.choices import Chooser, explore
from mc.seams import MGHSeam, UnmodelledNondeterminism
from oracles import mgh

PROPERTY = "C17"
CONTAINERS = ["list", "ndarray", "csr", "csc", "lil"]
FORMS = [(c, s) for c in CONTAINERS for s in ("upper", "sym")]
# every other scipy.sparse container, sparse arrays, float and bool dense arrays
EXTRA_FORMS = [("coo", "upper"), ("coo", "sym"), ("bsr", "upper"), ("bsr", "sym"), ("dok", "upper"), ("dok", "sym"), ("dia", "upper"), ("dia", "sym"),
               ("csr_array", "upper"), ("csr_array", "sym"), ("coo_array", "sym"), ("ndarray_float", "sym"), ("ndarray_bool", "upper"),
               # dense arrays in other memory layouts: Fortran order, a strided view, a read-only array
               ("ndarray_F", "upper"), ("ndarray_F", "sym"), ("ndarray_float_F", "upper"), ("ndarray_strided", "sym"), ("ndarray_readonly", "upper")]
# every edge stored ONCE, but not necessarily above the diagonal (an edge list written into a matrix: lower
# triangle only, or each edge in the triangle its endpoints happened to be listed in): still the same undirected graph
ORIENT_FORMS = [("ndarray", "lower"), ("csr", "lower"), ("list", "mixed"), ("ndarray", "mixed"), ("coo", "mixed"), ("lil", "lower")]
# sparse matrices that STORE zeros at non-edges explicitly (a stored zero is not an edge)
ZERO_FORMS = [("csr_zeros", "upper"), ("csr_zeros", "sym"), ("csc_zeros", "sym"), ("coo_zeros", "upper")]
EXTRA_FORMS = EXTRA_FORMS + ORIENT_FORMS + ZERO_FORMS
RULE = (
    "sparse atlas graphs on 5-7 vertices (and disconnected unions of them with an extra edge) in rotating container forms against a cover of partners and inside 5-collections; ALL labelled simple graphs on <= 4 vertices, connected or not (75 graphs, every vertex relabelling "
    "included), all ordered pairs; each pair in 10 container/symmetry combinations "
    "({nested list, ndarray, csr, csc, lil} x {upper-triangular, symmetric}, rotated against each other) plus coo/bsr/dok/dia matrices, csr/coo sparse arrays, float and bool dense arrays, dense arrays in Fortran order / as strided views / read-only; "
    "pairs with a disconnected graph additionally under every single deviation from the default RNG "
    "answers; collections: all ordered triples + pairs + one 4-collection from a 10-graph cover with "
    "mixed containers. Oracle: exact mGH on a largest connected component (any one when tied). "
    "state = (pair, container forms); transition = one gromov_hausdorff call; non-trivial = a graph is "
    "disconnected or the two containers differ."
    " No \"disconnected\" warning for connected graphs."
    " Long paths whose diameter sits at the boundaries of the integer types of the distance matrix (diameters 126-129; thorough: also 254-257): "
    "against paths of diameter 0, 1, 2, 4 in both orders and in rotating containers, and with a disjoint edge added (warning); oracle: the closed form "
    "mGH(P_n, P_m) = |diam P_n - diam P_m| / 2."
)
ASSUMPTIONS = [
    "all scipy.sparse matrix formats (csr, csc, lil, coo, bsr, dok, dia) and csr/coo sparse arrays are part of the space",
    "a disconnected input must raise at least one warning (the statement does not fix the count)",
]
COVER = None


def bounds(tier):
    return {"max_vertices": 4, "containers": CONTAINERS, "symmetry": ["upper", "sym"], "collection_cover": 10}


def all_graphs():
    return [g for n in range(1, 5) for g in mgh.labelled_graphs(n)]


def cover():
    gs = all_graphs()
    # 10-graph cover: single vertex, edge, 2 isolated, path3, triangle, 3-vertex with isolated, 4-clique, 4-path, star, 2 edges
    picks = [0, 2, 1, 8, 10, 4, 74, 0, 0, 0]
    out = [gs[0], gs[2], gs[1]]
    n3 = [g for g in gs if len(g) == 3]
    n4 = [g for g in gs if len(g) == 4]
    out += [n3[-1], n3[3], n3[1]]
    out += [n4[-1], n4[37], n4[56], n4[33]]
    return out


def to_form(A, form):
    import scipy.sparse as sps

    c, s = form
    M = np.array(A, dtype=int)
    if s == "sym":
        M = np.maximum(M, M.T)
    elif s == "lower":
        M = M.T.copy()
    elif s == "mixed":
        U = np.maximum(M, M.T)
        M = np.zeros_like(U)
        for i in range(len(U)):
            for j in range(i + 1, len(U)):
                if U[i, j]:
                    if (i + 2 * j) % 3 == 0:
                        M[j, i] = 1
                    else:
                        M[i, j] = 1
    if c.endswith("_zeros"):
        # every non-edge position of the stored triangle(s) holds an explicit 0
        n = len(M)
        rows, cols, data = [], [], []
        for i in range(n):
            for j in range(n):
                if i != j and (s == "sym" or j > i):
                    rows.append(i)
                    cols.append(j)
                    data.append(int(M[i, j]))
        Z = sps.coo_matrix((np.array(data, dtype=float), (np.array(rows, dtype=int), np.array(cols, dtype=int))), shape=(n, n))
        return {"csr_zeros": Z.tocsr, "csc_zeros": Z.tocsc, "coo_zeros": lambda: Z}[c]() if n > 1 else sps.csr_matrix((n, n))
    if c == "list":
        return M.tolist()
    if c == "ndarray":
        return M
    if c == "ndarray_float":
        return M.astype(float)
    if c == "ndarray_bool":
        return M.astype(bool)
    if c == "ndarray_F":
        return np.asfortranarray(M)
    if c == "ndarray_float_F":
        return np.asfortranarray(M.astype(float))
    if c == "ndarray_strided":
        big = np.zeros((2 * M.shape[0], 2 * M.shape[1]), dtype=M.dtype)
        big[::2, ::2] = M
        return big[::2, ::2]
    if c == "ndarray_readonly":
        R = M.copy()
        R.setflags(write=False)
        return R
    return {"csr": sps.csr_matrix, "csc": sps.csc_matrix, "lil": sps.lil_matrix, "coo": sps.coo_matrix, "bsr": sps.bsr_matrix,
            "dok": sps.dok_matrix, "dia": sps.dia_matrix, "csr_array": sps.csr_array, "coo_array": sps.coo_array}[c](M)


def big_graphs(tier):
    """Sparse connected graphs on 5-7 vertices (atlas) and disconnected unions of them with a small part."""
    a = mgh.atlas(5, 2) + mgh.atlas(6, 3) + mgh.atlas(7, 1)
    out = list(a)
    for g in a[:: 4]:
        n = len(g)
        U = [[0] * (n + 2) for _ in range(n + 2)]      # g plus a disjoint edge: largest component is g
        for i in range(n):
            for j in range(n):
                U[i + 1][j + 1] = g[i][j]
        U[0][n + 1] = 1
        out.append(U)
    return out


PATH_DIAMS_Q = [126, 127, 128, 129]
PATH_DIAMS_T = PATH_DIAMS_Q + [254, 255, 256, 257]


def path_graph(n, extra_edge=False):
    m = n + (2 if extra_edge else 0)
    A = [[0] * m for _ in range(m)]
    for i in range(n - 1):
        A[i][i + 1] = 1
    if extra_edge:
        A[n][n + 1] = 1
    return A


def cases(tier):
    for d in (PATH_DIAMS_T if tier == "thorough" else PATH_DIAMS_Q):
        yield {"kind": "path-row", "diam": d}
    for i in range(len(big_graphs(tier))):
        yield {"kind": "big-row", "i": i}
    gs = all_graphs()
    for i, A in enumerate(gs):
        yield {"kind": "row", "i": i}
    cv = cover()
    for t in itertools.permutations(range(len(cv)), 3):
        yield {"kind": "collection", "idx": list(t)}
    for t in itertools.permutations(range(len(cv)), 2):
        yield {"kind": "collection", "idx": list(t)}
    yield {"kind": "collection", "idx": [0, 5, 9, 3]}
    yield {"kind": "collection", "idx": list(range(10))}


_seam = MGHSeam()
_seam.memoize = True


def gh_call(ctx, a, b=None, prefix=()):
    """One execution under recorded RNG answers; returns (result, n_warnings)."""
    from persim import gromov_hausdorff

    ch = Chooser(prefix)
    _seam.start_run(ch)
    with warnings.catch_warnings(record=True) as w:
        warnings.simplefilter("always")
        ctx.trans()
        r = gromov_hausdorff(a, b) if b is not None else gromov_hausdorff(a)
    n = WarnCount(len(w))
    n.messages = [str(x.message) for x in w]
    return r, n, ch


def bracket(ctx, A, B, res, nwarn, what):
    ctx.valid()
    ex = {"A": A, "B": B, "variant": what}
    try:
        lb, ub = float(res[0]), float(res[1])
    except Exception:  # noqa: BLE001
        ctx.violation("result-shape", "gromov_hausdorff did not return a pair of numbers [%s]" % (what,), observed=repr(res), extra=ex)
        return None
    truth2 = mgh.truth_candidates_double(A, B)
    if not (np.isfinite(lb) and np.isfinite(ub)) or lb < 0 or (2 * lb) != int(2 * lb) or (2 * ub) != int(2 * ub) \
            or not any(2 * lb <= t <= 2 * ub for t in truth2):
        ctx.violation("bracket", "bounds do not bracket the mGH distance of the (largest components of the) graphs [%s]" % (what,),
                      observed=[lb, ub], expected=sorted(t / 2.0 for t in truth2), extra=ex)
    disc = len(mgh.components(A)) > 1 or len(mgh.components(B)) > 1
    if disc and nwarn < 1:
        ctx.violation("no-warning", "a disconnected graph was replaced by a component without a warning [%s]" % (what,), observed=nwarn, extra=ex)
    if not disc and any("disconnected" in m for m in getattr(nwarn, "messages", ())):
        ctx.violation("spurious-warning", "connected graphs reported as disconnected [%s]" % (what,), observed=nwarn.messages[:2], extra=ex)
    return lb, ub


def run_case(case, ctx):
    try:
        with _seam.installed():
            if case["kind"] == "path-row":
                path_row(case, ctx)
            elif case["kind"] == "big-row":
                big_row(case, ctx)
            elif case["kind"] == "row":
                row(case, ctx)
            else:
                collection(case, ctx)
    except UnmodelledNondeterminism as e:
        ctx.cap("unmodelled nondeterminism: %s" % e)


def row(case, ctx):
    gs = all_graphs()
    A = gs[case["i"]]
    discA = len(mgh.components(A)) > 1
    for jb, B in enumerate(gs):
        discB = len(mgh.components(B)) > 1
        _seam.cache = {}
        base = None
        for k, fa in enumerate(FORMS):
            fb = FORMS[(k + 3 * (jb % 3) + 1) % len(FORMS)] if k else fa
            ctx.state((A, B, fa, fb))
            res, nw, _ = gh_call(ctx, to_form(A, fa), to_form(B, fb))
            r = bracket(ctx, A, B, res, nw, [fa, fb])
            if fa != fb or discA or discB:
                ctx.nontriv("disconnected" if (discA or discB) else "mixed_containers", key=(A, B, fa, fb))
            if r is None:
                continue
            if base is None:
                base = r
                ctx.outcome(r)
            ctx.valid()
            if r[0] != base[0]:
                ctx.violation("container-dependent-lb", "the same labelled graphs in another container give another lower bound",
                              observed=r, expected=base, extra={"A": A, "B": B, "forms": [fa, fb]})
        # further accepted containers, on a rotating partner form
        if base is not None:
            nx = len(EXTRA_FORMS)
            for k in range(4):   # 4 of the extra forms per pair, rotating: every graph meets every form
                fa = EXTRA_FORMS[(4 * (case["i"] + jb) + k) % nx]
                fb = (EXTRA_FORMS + FORMS)[(k + 3 * jb + case["i"]) % (nx + len(FORMS))]
                ctx.state((A, B, fa, fb))
                res, nw, _ = gh_call(ctx, to_form(A, fa), to_form(B, fb))
                r = bracket(ctx, A, B, res, nw, [fa, fb])
                ctx.valid()
                if r is not None and r[0] != base[0]:
                    ctx.violation("container-dependent-lb", "the same labelled graphs in another container give another lower bound",
                                  observed=r, expected=base, extra={"A": A, "B": B, "forms": [fa, fb]})
        # explorer C: every single deviation from the default RNG answers when a component was cut out
        if (discA or discB) and (max(len(A), len(B)) <= 3 or min(len(A), len(B)) <= 2):
            NA, NB = np.array(A), np.array(B)

            def run(ch):
                _seam.start_run(ch)
                with warnings.catch_warnings(record=True) as w:
                    warnings.simplefilter("always")
                    ctx.trans()
                    from persim import gromov_hausdorff

                    return gromov_hausdorff(NA, NB), len(w)

            for prefix, tr, (res, nw) in explore(run, 1):
                ctx.count("schedules_executed")
                bracket(ctx, A, B, res, nw, {"answers": [t[2] for t in tr]})


def path_row(case, ctx):
    """A long path against short paths: mGH(P_n, P_m) = |diam P_n - diam P_m| / 2 (lower bound: the diametral pair of the longer
    path under any map; upper bound: clamping i -> min(i, m-1) one way, inclusion the other way)."""
    d = case["diam"]
    allf = FORMS + EXTRA_FORMS
    k = 0
    for extra in (False, True):
        A = path_graph(d + 1, extra)
        for dm in (0, 1, 2, 4):
            B = path_graph(dm + 1)
            fa, fb = allf[(d + 3 * k) % len(allf)], allf[(2 * d + 5 * k + 1) % len(allf)]
            k += 1
            _seam.cache = {}
            ctx.state(("path", d, extra, dm, fa, fb))
            for X, Y, f1, f2 in ((A, B, fa, fb), (B, A, fb, fa)):
                res, nw, _ = gh_call(ctx, to_form(X, f1), to_form(Y, f2))
                ctx.valid()
                ex = {"A": "path of diameter %d%s" % (d, " plus a disjoint edge" if extra else ""), "B": "path of diameter %d" % dm,
                      "order": "A,B" if X is A else "B,A", "variant": [f1, f2]}
                try:
                    lb, ub = float(res[0]), float(res[1])
                except Exception:  # noqa: BLE001
                    ctx.violation("result-shape", "gromov_hausdorff did not return a pair of numbers", observed=repr(res)[:200], extra=ex)
                    continue
                ctx.outcome((d, dm, lb, ub))
                t2 = d - dm
                if not (np.isfinite(lb) and np.isfinite(ub)) or lb < 0 or not (2 * lb <= t2 <= 2 * ub):
                    ctx.violation("bracket-long-path", "bounds do not bracket the mGH distance of two paths (|diam - diam| / 2)",
                                  observed=[lb, ub], expected=t2 / 2.0, extra=ex)
                if extra and nw < 1:
                    ctx.violation("no-warning", "a disconnected graph was replaced by a component without a warning", observed=nw, extra=ex)
                if not extra and any("disconnected" in m for m in getattr(nw, "messages", ())):
                    ctx.violation("spurious-warning", "connected graphs reported as disconnected", observed=nw.messages[:2], extra=ex)
    ctx.nontriv("long_path_diameter_%d" % d)


def big_row(case, ctx):
    """Larger graphs in rotating container forms against a cover of partners, and inside a 5-collection."""
    B_all = big_graphs(ctx.tier)
    A = B_all[case["i"]]
    partners = list(B_all) + [cover()[6], cover()[8]]     # ALL larger graphs as partners, one rotating form combination each
    allf = FORMS + EXTRA_FORMS
    for k, B in enumerate(partners):
        fa, fb = allf[(case["i"] + 3 * k) % len(allf)], allf[(2 * case["i"] + 5 * k + 1) % len(allf)]
        _seam.cache = {}
        ctx.state(("big", case["i"], k, fa, fb))
        for X, Y, f1, f2 in ((A, B, fa, fb), (B, A, fb, fa)):
            res, nw, _ = gh_call(ctx, to_form(X, f1), to_form(Y, f2))
            bracket(ctx, X, Y, res, nw, [f1, f2])
    ctx.nontriv("larger_graph_%d_vertices" % len(A))
    coll = [A] + [B_all[(case["i"] * 7 + 11 * k + 3) % len(B_all)] for k in range(4)]
    forms = [allf[(case["i"] + 2 * p) % len(allf)] for p in range(5)]
    _seam.cache = {}
    res, nw, _ = gh_call(ctx, [to_form(g, f) for g, f in zip(coll, forms)])
    ctx.valid()
    try:
        lbs, ubs = np.asarray(res[0], dtype=float), np.asarray(res[1], dtype=float)
        assert lbs.shape == (5, 5) and ubs.shape == (5, 5)
    except Exception:  # noqa: BLE001
        ctx.violation("collection-shape", "collection call did not return two 5x5 matrices", observed=repr(res)[:200])
        return
    ctx.outcome((lbs.tolist(), ubs.tolist()))
    if not (np.array_equal(lbs, lbs.T) and np.array_equal(ubs, ubs.T)) or np.any(np.diag(lbs) != 0) or np.any(np.diag(ubs) != 0):
        ctx.violation("collection-symmetry", "collection matrices are not symmetric with zero diagonal", observed=[lbs.tolist(), ubs.tolist()])
    for i in range(5):
        for j in range(5):
            if i != j:
                ctx.valid()
                truth2 = mgh.truth_candidates_double(coll[i], coll[j])
                if not any(2 * lbs[i, j] <= t <= 2 * ubs[i, j] for t in truth2):
                    ctx.violation("collection-bracket", "entry (%d,%d) of a 5-collection of larger graphs does not bracket the pairwise distance" % (i, j),
                                  observed=[lbs[i, j], ubs[i, j]], expected=sorted(t / 2.0 for t in truth2), extra={"graphs": coll, "forms": forms})


def collection(case, ctx):
    cv = cover()
    idx = case["idx"]
    gs = [cv[i] for i in idx]
    forms = [FORMS[(3 * i + p) % len(FORMS)] for p, i in enumerate(idx)]
    args = [to_form(g, f) for g, f in zip(gs, forms)]
    ctx.state(("collection", idx))
    _seam.cache = {}
    res, nw, _ = gh_call(ctx, args)
    ctx.valid()
    ex = {"graphs": gs, "forms": forms}
    try:
        lbs, ubs = np.asarray(res[0], dtype=float), np.asarray(res[1], dtype=float)
    except Exception:  # noqa: BLE001
        ctx.violation("collection-shape", "collection call did not return two matrices", observed=repr(res), extra=ex)
        return
    N = len(gs)
    if lbs.shape != (N, N) or ubs.shape != (N, N):
        ctx.violation("collection-shape", "collection call must return two NxN matrices", observed=[list(lbs.shape), list(ubs.shape)], extra=ex)
        return
    ctx.outcome((lbs.tolist(), ubs.tolist()))
    ctx.nontriv("collection_of_%d" % N)
    if not (np.array_equal(lbs, lbs.T) and np.array_equal(ubs, ubs.T)):
        ctx.violation("collection-symmetry", "result matrices are not symmetric", observed=[lbs.tolist(), ubs.tolist()], extra=ex)
    if np.any(np.diag(lbs) != 0) or np.any(np.diag(ubs) != 0):
        ctx.violation("collection-diagonal", "result matrices do not have a zero diagonal", observed=[np.diag(lbs).tolist(), np.diag(ubs).tolist()], extra=ex)
    anydisc = any(len(mgh.components(g)) > 1 for g in gs)
    if anydisc and nw < 1:
        ctx.violation("no-warning", "a disconnected graph in a collection was replaced without a warning", observed=nw, extra=ex)
    for i in range(N):
        for j in range(N):
            if i == j:
                continue
            ctx.valid()
            truth2 = mgh.truth_candidates_double(gs[i], gs[j])
            if not any(2 * lbs[i, j] <= t <= 2 * ubs[i, j] for t in truth2):
                ctx.violation("collection-bracket", "entry (%d,%d) does not bracket the pairwise distance" % (i, j),
                              observed=[lbs[i, j], ubs[i, j]], expected=sorted(t / 2.0 for t in truth2), extra=ex)
