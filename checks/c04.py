"""C04 — persistence image pixels are weighted kernel mass over each pixel (explorer A)."""
import itertools
import math

import numpy as np

from oracles import images as OI

CALL_VARIANTS = True   # every whitelisted persim call is repeated with its arrays in another memory layout (mc/ctx.py)
PROPERTY = "C04"
TOL = 1e-7
RULE = (
    "configuration product: 2 regions (one asymmetric, 2x3 pixels per unit) x pixel size {1, 0.5} x 22 "
    "kernels (Gaussian: scalar variance, isotropic matrix, axis-aligned, correlated with r in {0.2,-0.5, "
    "0.74,0.76,-0.9,0.93,-0.95,0.99}; uniform box x2; a user kernel) x 7 weights (persistence n=1,2; "
    "linear_ramp x2; a user weight; two user weights that return one of their argument arrays) x skew on/off; diagrams: each of 16 points (inside, on a pixel "
    "border, on the region corner, outside, on the diagonal, negative birth, ...) alone and 6 pairs; plus diagrams of 300 and 1100 points on the coarse grid (chunked evaluation paths). "
    "Oracle per pixel: weight x mass of the kernel over the pixel's square by 1-D quadrature of the "
    "conditional law / erf products / exact box overlap; pixel squares from the public ranges and "
    "pixel_size; every image is requested through 4 call styles (alone, n_jobs=1 joblib path, inside a collection with / without n_jobs). state = (configuration, diagram); transition = one transform call; non-trivial = "
    "correlated kernel or a point on/outside the border of the imaged region."
)
ASSUMPTIONS = [
    "oracle accuracy ~1e-12 (scipy quad with break points at the kinks), tolerance 1e-7 x max(1, weight)",
    "ranges are integer multiples of the pixel (geometry itself is C12's subject)",
]
REGIONS = [((0.0, 2.0), (0.0, 2.0)), ((-1.0, 1.0), (0.0, 3.0))]
PIXELS = [1.0, 0.5]
CORR = [0.2, -0.5, 0.74, 0.76, -0.9, 0.93, -0.95, 0.99]
KERNELS = ([("gauss_scalar", 0.3), ("gauss_iso", 0.5), ("gauss_diag", 0.2, 0.8),
            # narrow kernels: most pixels are in the far tails, points just outside the border still leak in
            ("gauss_scalar", 0.01), ("gauss_iso", 0.0025), ("gauss_diag", 0.01, 0.0004), ("gauss_corr", 0.0004, 0.0016, 0.93),
            ("gauss_corr", 0.01, 0.0025, -0.95)]
           + [("gauss_corr", 0.5, 0.2, r) for r in CORR]
           + [("uniform", 1.0, 1.0), ("uniform", 0.6, 1.7), ("user", 0.5)]
           # the scalar variance given as a NumPy scalar of another type, or as a 0-d array
           + [("gauss_scalar", np.float32(0.25)), ("gauss_scalar", np.int64(1)), ("gauss_scalar", np.array(0.3))])
WEIGHTS = [("persistence", 1.0), ("persistence", 2.0), ("linear_ramp", 0.0, 1.0, 0.0, 1.0),
           ("linear_ramp", 0.5, 2.0, 0.5, 1.5), ("user", 2.0),
           # user weights that RETURN THEIR ARGUMENT (no new array): the weights then share memory with whatever the
           # imager passed in, and must still be the values at the time of the call
           ("user_view", "p"), ("user_view", "b")]
POINTS = [[0.7, 1.9], [1.0, 2.0], [0.0, 2.0], [3.0, 3.5], [-2.0, 5.0], [0.5, 0.5], [-0.5, 0.25],
          [1.5, 1.75], [0.25, 2.25], [1.99, 3.0], [0.5, 1.0], [-1.0, 2.0],
          # just outside the imaged region (by about one narrow-kernel standard deviation)
          [2.1, 3.0], [-1.05, 0.0], [0.5, 2.55], [1.95, 4.0]]
PAIRS = [(0, 1), (2, 5), (3, 6), (0, 0), (7, 9), (4, 11)]


def bounds(tier):
    return {"regions": REGIONS, "pixels": PIXELS, "kernels": len(KERNELS), "weights": len(WEIGHTS), "points": len(POINTS), "pairs": len(PAIRS), "tol": TOL}


def user_weight(b, p, k=2.0):
    return k * np.abs(b) + p


def user_view_p(b, p):
    return p


def user_view_b(b, p):
    return b


def user_kernel(x, y, mu=None, w=0.5):
    from persim import images_kernels

    return images_kernels.uniform(x, y, mu=mu, width=w, height=2 * w)


def imager_kwargs(kernel, weight):
    kw = {}
    k = kernel[0]
    if k == "gauss_scalar":
        kw["kernel_params"] = {"sigma": kernel[1]}
    elif k == "gauss_iso":
        kw["kernel_params"] = {"sigma": [[kernel[1], 0.0], [0.0, kernel[1]]]}
    elif k == "gauss_diag":
        kw["kernel_params"] = {"sigma": np.array([[kernel[1], 0.0], [0.0, kernel[2]]])}
    elif k == "gauss_corr":
        c = kernel[3] * math.sqrt(kernel[1] * kernel[2])
        kw["kernel_params"] = {"sigma": np.array([[kernel[1], c], [c, kernel[2]]])}
    elif k == "uniform":
        kw["kernel"] = "uniform"
        kw["kernel_params"] = {"width": kernel[1], "height": kernel[2]}
    else:
        kw["kernel"] = user_kernel
        kw["kernel_params"] = {"w": kernel[1]}
    if weight[0] == "persistence":
        kw["weight"] = "persistence"
        kw["weight_params"] = {"n": weight[1]}
    elif weight[0] == "linear_ramp":
        kw["weight"] = "linear_ramp"
        kw["weight_params"] = {"low": weight[1], "high": weight[2], "start": weight[3], "end": weight[4]}
    elif weight[0] == "user_view":
        kw["weight"] = user_view_p if weight[1] == "p" else user_view_b
        kw["weight_params"] = {}
    else:
        kw["weight"] = user_weight
        kw["weight_params"] = {"k": weight[1]}
    return kw


def oracle_kernel(kernel):
    k = kernel[0]
    if k in ("gauss_scalar", "gauss_iso"):
        return ("gauss", float(kernel[1]), float(kernel[1]), 0.0)
    if k == "gauss_diag":
        return ("gauss", kernel[1], kernel[2], 0.0)
    if k == "gauss_corr":
        return ("gauss", kernel[1], kernel[2], kernel[3] * math.sqrt(kernel[1] * kernel[2]))
    if k == "uniform":
        return ("uniform", kernel[1], kernel[2])
    return ("uniform", kernel[1], 2 * kernel[1])


def big_diagram(n):
    """n distinct points on a deterministic lattice covering and overlapping the imaged regions."""
    pts = []
    k = 0
    while len(pts) < n:
        b = -1.5 + 0.11 * (k % 37)
        p = 0.05 + 0.083 * (k // 37) + 0.013 * (k % 5)
        pts.append([round(b, 6), round(b + p, 6)])
        k += 1
    return pts


BIG_SIZES = [300, 1100]


def cases(tier):
    for ri, px, ki in itertools.product(range(len(REGIONS)), PIXELS, range(len(KERNELS))):
        yield {"region": ri, "pixel": px, "kernel": ki}
    # large diagrams (block-wise / chunked evaluation paths): every kernel on the coarse grid
    for ki in range(len(KERNELS)):
        for n in BIG_SIZES:
            if KERNELS[ki][0] == "gauss_corr" and n > 300:
                continue
            yield {"region": 1, "pixel": 1.0, "kernel": ki, "big": n}
    # high resolution: 40x40 and 80x120 pixels (fine meshes, chunked corner evaluation)
    for ki in (0, 2, 3, 9, 14, 17):
        yield {"region": 0, "pixel": 0.05, "kernel": ki, "hires": True}
    yield {"region": 1, "pixel": 0.025, "kernel": 0, "hires": True}
    yield {"kind": "int-dtype"}
    yield {"kind": "mutated-params"}
    for s in UNIT_SCALES:
        yield {"kind": "units", "scale": s}


INT_DIAGRAMS = [[[0, 3], [10, 210], [5, 255]], [[2, 250]], [[0, 120], [0, 127], [7, 100]]]


def int_dtype_case(case, ctx):
    """Diagrams stored in narrow / unsigned integer arrays (values up to 255): the image is that of the equal
    float diagram (death - birth and the weights must not be formed in the integer dtype)."""
    from persim import PersistenceImager

    br, pr, px = (0.0, 20.0), (0.0, 260.0), 20.0
    kernel = ("gauss_scalar", 50.0)
    for weight in (("persistence", 2), ("linear_ramp", 0, 5, 0, 255), ("persistence", 2.0), ("linear_ramp", 0.0, 5.0, 0.0, 255.0)):   # integer and float parameters
        im = PersistenceImager(birth_range=br, pers_range=pr, pixel_size=px, **imager_kwargs(kernel, weight))
        res = tuple(im.resolution)
        for D in INT_DIAGRAMS:
            bp = [(float(b), float(d - b)) for b, d in D]
            ref = OI.image_ref(bp, oracle_kernel(kernel), weight, im.birth_range[0], im.pers_range[0], px, res)
            wmax = max(abs(OI.weight_value(weight, b, p)) for b, p in bp)
            for dt in (np.int64, np.int16, np.uint8, np.uint16, np.float32, np.float64):
                if max(x for p_ in D for x in p_) > np.iinfo(dt).max if np.dtype(dt).kind in "iu" else False:
                    continue
                ctx.state(("int-dtype", weight, D, str(np.dtype(dt))))
                img = np.asarray(ctx.call(im.transform, np.array(D, dtype=dt)))
                ctx.valid()
                tol = (1e-5 if dt is np.float32 else TOL) * max(1.0, wmax)
                if img.shape != ref.shape or not np.all(np.abs(img - ref) <= tol):
                    ctx.violation("pixel-value-int-dtype", "image of a diagram stored as %s differs from the weighted kernel mass of the equal float diagram" % np.dtype(dt),
                                  observed=img.tolist(), expected=ref.tolist(), extra={"diagram": D, "dtype": str(np.dtype(dt)), "weight": weight})
    ctx.nontriv("integer_dtype_diagrams")
    ctx.outcome("int-dtype")


UNIT_SCALES = [1e-4, 1e-6, 1e-9, 1e3, 1e6]


def units_case(case, ctx):
    """The same picture in other physical units: coordinates, ranges and pixel scaled by s, covariance ENTRIES by
    s^2 (1e-8 ... 1e-18 for small units: far below any absolute tolerance a comparison of matrix entries might
    use).  The image of the scaled diagram is the unit-scale image with the weights scaled accordingly."""
    from persim import PersistenceImager

    s = case["scale"]
    D1 = [[0.25, 1.0], [0.5, 2.25], [1.5, 1.75], [1.0, 2.0], [-0.25, 0.5]]
    kernels = [("gauss_corr", 0.04, 0.09, 0.6), ("gauss_corr", 0.05, 0.02, -0.95), ("gauss_diag", 0.04, 0.16), ("gauss_diag", 0.0501, 0.05),
               ("gauss_iso", 0.06), ("gauss_scalar", 0.05), ("uniform", 0.6, 0.9)]
    for kernel in kernels:
        ks = (kernel[0],) + tuple(v * s * s for v in kernel[1:3]) + tuple(kernel[3:]) if kernel[0] != "uniform" else ("uniform", kernel[1] * s, kernel[2] * s)
        if kernel[0] in ("gauss_iso", "gauss_scalar"):
            ks = (kernel[0], kernel[1] * s * s)
        for weight in (("persistence", 1.0), ("linear_ramp", 0.25, 1.0, 0.0, 2.0 * s)):
            im = PersistenceImager(birth_range=(0.0, 2.0 * s), pers_range=(0.0, 2.0 * s), pixel_size=0.5 * s, **imager_kwargs(ks, weight))
            res = tuple(im.resolution)
            D = [[b * s, d * s] for b, d in D1]
            bp = [(b, d - b) for b, d in D]
            ref = OI.image_ref(bp, oracle_kernel(ks), weight, im.birth_range[0], im.pers_range[0], 0.5 * s, res)
            wmax = max(abs(OI.weight_value(weight, b, p)) for b, p in bp)
            ctx.state(("units", s, kernel, weight))
            img = np.asarray(ctx.call(im.transform, np.array(D, dtype=float)))
            ctx.valid()
            if img.shape != ref.shape or not np.all(np.abs(img - ref) <= TOL * wmax):
                ctx.violation("pixel-value-units", "image in units of %g differs from the weighted kernel mass" % s,
                              observed=img.tolist(), expected=ref.tolist(), extra={"scale": s, "kernel": ks, "weight": weight, "diagram": D})
    ctx.nontriv("other_physical_units", key=s)
    ctx.outcome(("units", s))


def mutated_params_case(case, ctx):
    """The parameter dictionaries of a live imager edited IN PLACE (im.kernel_params["sigma"] = ..., the dict
    the caller passed to the constructor, weight_params.update(...)): every later image uses the parameters the
    imager reports at that moment."""
    from persim import PersistenceImager

    (br, pr), px = REGIONS[0], 0.5
    gauss = [k for k in KERNELS if k[0] in ("gauss_scalar", "gauss_iso", "gauss_diag", "gauss_corr")][:12]
    D = [POINTS[0], POINTS[7], POINTS[10]]
    A = np.array(D, dtype=float)
    bp = [(b, d - b) for b, d in D]
    for i, k1 in enumerate(gauss):
        k2 = gauss[(i + 5) % len(gauss)]
        w1, w2 = WEIGHTS[0], WEIGHTS[1]
        kw = imager_kwargs(k1, w1)
        caller_kp, caller_wp = kw["kernel_params"], kw["weight_params"]
        im = PersistenceImager(birth_range=br, pers_range=pr, pixel_size=px, **kw)
        res = tuple(im.resolution)
        ctx.state(("mutated-params", k1, k2))
        steps = [("as constructed", k1, w1, lambda: None),
                 ("im.kernel_params['sigma'] = ...", k2, w1, lambda: im.kernel_params.__setitem__("sigma", imager_kwargs(k2, w1)["kernel_params"]["sigma"])),
                 ("im.weight_params.update(n=...)", k2, w2, lambda: im.weight_params.update(n=w2[1])),
                 ("the caller's own dict edited", k1, w2, lambda: caller_kp.__setitem__("sigma", imager_kwargs(k1, w1)["kernel_params"]["sigma"]))]
        for what, kern, wt, edit in steps:
            edit()
            if what == "the caller's own dict edited" and im.kernel_params is not caller_kp:
                continue        # the imager keeps its own copy of the dict: the caller's edit is not supposed to reach it
            img = np.asarray(ctx.call(im.transform, A))
            ref = OI.image_ref(bp, oracle_kernel(kern), wt, im.birth_range[0], im.pers_range[0], px, res)
            ctx.valid()
            wmax = max(1.0, max(abs(OI.weight_value(wt, b, p)) for b, p in bp))
            if img.shape != ref.shape or not np.all(np.abs(img - ref) <= TOL * wmax):
                ctx.violation("pixel-value-after-parameter-edit", "image after [%s] is not the weighted kernel mass for the parameters the imager reports" % what,
                              observed=img.tolist(), expected=ref.tolist(), extra={"kernel_before": k1, "kernel_now": kern, "weight_now": wt, "reported": repr(im.kernel_params)})
    ctx.nontriv("parameters_edited_in_place")
    ctx.outcome("mutated-params")


def run_case(case, ctx):
    from persim import PersistenceImager

    if case.get("kind") == "int-dtype":
        return int_dtype_case(case, ctx)
    if case.get("kind") == "units":
        return units_case(case, ctx)
    if case.get("kind") == "mutated-params":
        return mutated_params_case(case, ctx)

    (br, pr), px, kernel = REGIONS[case["region"]], case["pixel"], KERNELS[case["kernel"]]
    okern = oracle_kernel(kernel)
    diagrams = [[POINTS[i]] for i in range(len(POINTS))] + [[POINTS[i], POINTS[j]] for i, j in PAIRS]
    weights = WEIGHTS
    if "big" in case:
        diagrams = [big_diagram(case["big"])]
        weights = [WEIGHTS[0], WEIGHTS[3]]
    if case.get("hires"):
        diagrams = [[POINTS[0]], [POINTS[6], POINTS[12]], [POINTS[1], POINTS[2], POINTS[8]]]
        weights = [WEIGHTS[0]]
    for weight in weights:
        im = PersistenceImager(birth_range=br, pers_range=pr, pixel_size=px, **imager_kwargs(kernel, weight))
        ctx.trans()
        res = tuple(im.resolution)
        b0, p0 = im.birth_range[0], im.pers_range[0]
        ctx.valid()
        want_res = (round((br[1] - br[0]) / px), round((pr[1] - pr[0]) / px))
        if res != want_res or abs(im.pixel_size - px) > 0 or abs(b0 - br[0]) > 1e-12 or abs(p0 - pr[0]) > 1e-12:
            ctx.violation("geometry", "imager geometry differs from the requested exact-multiple ranges",
                          observed={"resolution": list(res), "birth_range": list(im.birth_range), "pers_range": list(im.pers_range)},
                          expected={"resolution": list(want_res)})
            continue
        for skew in ((True,) if ("big" in case or case.get("hires")) else (True, False)):
            for D in diagrams:
                A = np.array(D, dtype=float)
                bp = [(b, d - b) for b, d in D] if skew else [(b, d) for b, d in D]
                ctx.state((case, weight, skew, D))
                img = np.asarray(ctx.call(im.transform, A, skew=skew))
                ref = OI.image_ref(bp, okern, weight, b0, p0, px, res)
                ctx.valid()
                wmax = max([1.0] + [abs(OI.weight_value(weight, b, p)) for b, p in bp]) * max(1.0, len(bp) / 20.0)
                ex = {"region": [br, pr], "pixel": px, "kernel": kernel, "weight": weight, "skew": skew, "diagram": D if len(D) <= 4 else "big_diagram(%d)" % len(D)}
                if len(D) > 4:
                    ctx.nontriv("large_diagram_%d_points" % len(D))
                styles = [("transform(D)", img)]
                if not case.get("hires"):
                    # the other documented call styles reach the same pixels: the joblib path (n_jobs given,
                    # executed in-process for n_jobs=1) and a one-element collection
                    styles.append(("transform(D, n_jobs=1)", np.asarray(ctx.call(im.transform, A, skew=skew, n_jobs=1))))
                    if "big" not in case:
                        r_ = ctx.call(im.transform, [A, A[:1]], skew=skew, n_jobs=1)
                        styles.append(("transform([D, D[:1]], n_jobs=1)[0]", np.asarray(r_[0]) if len(r_) == 2 else np.zeros((0, 0))))
                        r_ = ctx.call(im.transform, [A], skew=skew)
                        styles.append(("transform([D])[0]", np.asarray(r_[0]) if len(r_) == 1 else np.zeros((0, 0))))
                bad_shape = False
                for style, img in styles:
                    ctx.valid()
                    exs = dict(ex, call=style)
                    if img.shape != ref.shape:
                        ctx.violation("image-shape", "image shape differs from the resolution (birth pixels x persistence pixels) [%s]" % style,
                                      observed=list(img.shape), expected=list(ref.shape), extra=exs)
                        bad_shape = True
                        continue
                    err = np.abs(img - ref)
                    if not np.all(err <= TOL * wmax):
                        i, j = np.unravel_index(np.nanargmax(err) if np.any(np.isfinite(err)) else 0, err.shape)
                        transposed = img.T.shape == ref.shape and np.all(np.abs(img.T - ref) <= TOL * wmax)
                        ctx.violation("pixel-value" + ("-transposed" if transposed else ""),
                                      "pixel (birth %d, persistence %d) is %r, weighted kernel mass over that square is %r [%s]" % (i, j, float(img[i, j]), float(ref[i, j]), style),
                                      observed=img.tolist(), expected=ref.tolist(), extra=exs)
                if bad_shape:
                    continue
                if len(D) == 1:
                    ctx.outcome(np.round(ref, 7).tolist())
                b, p = bp[0]
                if kernel[0] == "gauss_corr":
                    ctx.nontriv("correlated_kernel")
                elif not (br[0] < b < br[1] and pr[0] < p < pr[1]):
                    ctx.nontriv("point_on_or_outside_region_border")
