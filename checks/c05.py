"""C05 — mGH estimates always bracket the true modified Gromov-Hausdorff distance (A + C)."""
import numpy as np

from mc.choices import explore
from mc.seams import MGHSeam, UnmodelledNondeterminism
from oracles import mgh

PROPERTY = "C05"
ORDERS = {"zero": [0.0, 0.0], "default": None, "one": [1.0, 1.0]}
RULE = (
    "all ordered pairs of connected LABELLED graphs on <= 4 vertices (quick; <= 5 thorough) x "
    "mapping_sample_size_order in {[0,0], default [.5,1], [1,1]}; every NumPy draw of the upper-bound "
    "heuristic (np.random.permutation / choice) is a choice point owned by the explorer: ALL answer "
    "sequences for small pairs (state-key pruning on direction/goal/mappings tried/best distortion), "
    "every single deviation from the default answers (deviation bound 1) for the rest. Oracle: exact "
    "mGH by enumeration of all |Y|^|X| maps. state = (pair, order); transition = one execution of "
    "gromov_hausdorff under one answer sequence; non-trivial = lower bound < upper bound for some "
    "schedule, or different schedules give different upper bounds."
)
ASSUMPTIONS = [
    "the only nondeterminism of the routine are np.random.permutation/choice in persim.gromov_hausdorff (any other np.random call raises)",
    "graphs beyond 5 vertices (int16 distances, long curvature eliminations) are outside the bounds",
]


def bounds(tier):
    return {"max_vertices": 4 if tier == "quick" else 5, "orders": ORDERS,
            "full_schedule_exploration_up_to_vertices": 3 if tier == "quick" else 4, "deviation_bound_otherwise": 1}


def graphs(nmax):
    return [g for n in range(1, nmax + 1) for g in mgh.labelled_graphs(n, connected_only=True)]


def cases(tier):
    nmax = 4 if tier == "quick" else 5
    full_upto = 3 if tier == "quick" else 4
    gs = graphs(nmax)
    for A in gs:
        for B in gs:
            big = max(len(A), len(B))
            if big <= full_upto:
                yield {"A": A, "B": B, "mode": "full", "orders": ["zero", "default", "one"]}
            elif big <= 4:
                yield {"A": A, "B": B, "mode": "dev1", "orders": ["zero", "default", "one"]}
            else:
                yield {"A": A, "B": B, "mode": "dev1" if (len(A) + len(B)) <= 7 else "dev0", "orders": ["default"]}


_seam = MGHSeam()
_seam.memoize = True


def check_bracket(ctx, A, B, truth2, res, what):
    """res = (lb, ub) as returned; truth2 = set of admissible values of 2*mGH."""
    ctx.valid()
    try:
        lb, ub = float(res[0]), float(res[1])
    except Exception:  # noqa: BLE001
        ctx.violation("result-shape", "gromov_hausdorff did not return a pair of numbers [%s]" % what, observed=repr(res))
        return None
    ex = {"A": A, "B": B, "schedule": what}
    if not (np.isfinite(lb) and np.isfinite(ub)) or lb < 0 or ub < 0 or (2 * lb) != int(2 * lb) or (2 * ub) != int(2 * ub):
        ctx.violation("not-half-integer", "bounds must be finite non-negative multiples of 1/2 [%s]" % what, observed=[lb, ub], extra=ex)
        return None
    if not any(2 * lb <= t <= 2 * ub for t in truth2):
        t = sorted(truth2)[0] / 2.0
        if lb > t:
            ctx.violation("lower-bound-too-high", "lower bound exceeds the true mGH distance [%s]" % what, observed=[lb, ub], expected=t, extra=ex)
        else:
            ctx.violation("upper-bound-too-low", "upper bound is below the true mGH distance [%s]" % what, observed=[lb, ub], expected=t, extra=ex)
    if 0 in truth2 and len(truth2) == 1 and lb != 0:
        ctx.violation("isomorphic-lb", "isomorphic graphs must get lower bound 0 [%s]" % what, observed=[lb, ub], expected=0.0, extra=ex)
    return lb, ub


def run_case(case, ctx):
    from persim import gromov_hausdorff

    A, B = case["A"], case["B"]
    truth2 = {mgh.exact_double(mgh.bfs_dist(A).astype(np.int64), mgh.bfs_dist(B).astype(np.int64))}
    NA, NB = np.array(A), np.array(B)
    bound = {"full": None, "dev1": 1, "dev0": 0}[case["mode"]]
    for oname in case["orders"]:
        kw = {} if ORDERS[oname] is None else {"mapping_sample_size_order": np.array(ORDERS[oname])}
        ctx.state((A, B, oname))
        results = set()
        _seam.cache = {}
        try:
            with _seam.installed():
                def run(ch):
                    _seam.start_run(ch)
                    ctx.trans()
                    return gromov_hausdorff(NA, NB, **kw)

                nruns = 0
                for prefix, tr, res in explore(run, bound):
                    nruns += 1
                    r = check_bracket(ctx, A, B, truth2, res, {"order": oname, "answers": [t[2] for t in tr]})
                    if r:
                        results.add(r)
                ctx.count("schedules_executed", nruns)
                if _seam.draws == 0:
                    ctx.count("seam_unused")
        except UnmodelledNondeterminism as e:
            ctx.cap("unmodelled nondeterminism: %s" % e)
            res = gromov_hausdorff(NA, NB, **kw)
            ctx.trans()
            r = check_bracket(ctx, A, B, truth2, res, {"order": oname, "answers": "free-running RNG"})
            if r:
                results.add(r)
        ctx.outcome((oname, sorted(results)))
        if any(lb < ub for lb, ub in results):
            ctx.nontriv("bracket_not_tight")
        if len({ub for _, ub in results}) > 1:
            ctx.nontriv("schedules_give_different_upper_bounds")
        if mgh.isomorphic(A, B) and A != B:
            ctx.nontriv("isomorphic_relabelling")
