"""C05 — mGH estimates always bracket the true modified Gromov-Hausdorff distance (A + C)."""
import numpy as np

from mc.choices import explore
from mc.seams import MGHSeam, UnmodelledNondeterminism
from oracles import mgh

PROPERTY = "C05"
ORDERS = {"zero": [0.0, 0.0], "default": None, "one": [1.0, 1.0]}
RULE = (
    "all ordered pairs of connected LABELLED graphs on <= 4 vertices (quick; <= 5 thorough) x "
    "mapping_sample_size_order in {[0,0], default [.5,1], [1,1]}; every NumPy draw of the upper-bound "
    "heuristic (np.random.permutation / choice) is a choice point owned by the explorer: ALL answer "
    "sequences for small pairs (state-key pruning on direction/goal/mappings tried/best distortion), "
    "every single deviation from the default answers (deviation bound 1) for the rest. Larger graphs (6-7 vertices: trees, unicyclic, ...; "
    "hubs, spiders, caterpillars): all pairs under default answers against the exact oracle and all/systematic relabellings (lb must be 0). Collections: every unordered triple of a cover of 14 (thorough 18) graphs on 1..7 vertices in ALL 6 orders and every 4-subset of every second graph in 4 orders: each entry of both matrices brackets that pair's truth. Oracle: exact "
    "mGH by enumeration of all |Y|^|X| maps. state = (pair, order); transition = one execution of "
    "gromov_hausdorff under one answer sequence; non-trivial = lower bound < upper bound for some "
    "schedule, or different schedules give different upper bounds."
)
ASSUMPTIONS = [
    "the only nondeterminism of the routine are np.random.permutation/choice in persim.gromov_hausdorff (any other np.random call raises)",
    "graphs beyond 5 vertices (int16 distances, long curvature eliminations) are outside the bounds",
]


def bounds(tier):
    return {"max_vertices": 4 if tier == "quick" else 5, "orders": ORDERS, "larger_graphs": "unlabelled connected graphs: all on 5 vertices, <= n+1 edges on 6, <= n edges on 7 (quick) / all on 5 and 6, <= n+2 edges on 7 (thorough): ALL pairs with the exact oracle (exhaustive branch-and-bound search), isomorphic relabellings (all n! for <= 5 vertices (<= 6 thorough); rotations, reversal, transpositions beyond)",
            "full_schedule_exploration_up_to_vertices": 3 if tier == "quick" else 4, "deviation_bound_otherwise": 1}


def graphs(nmax):
    return [g for n in range(1, nmax + 1) for g in mgh.labelled_graphs(n, connected_only=True)]


def big_set(tier):
    """Sparse unlabelled connected graphs on 5-7 vertices (trees, unicyclic, bicyclic: hub / spider /
    caterpillar shapes with diameter >= 3 are where the curvature-based lower bound has something
    to prove)."""
    if tier == "quick":
        return mgh.atlas(5) + mgh.atlas(6, 2) + mgh.atlas(7, 1)
    return mgh.atlas(5) + mgh.atlas(6) + mgh.atlas(7, 3)


def small_partners():
    """Every connected unlabelled graph on 1..4 vertices (as partners of the larger graphs: very different
    sizes, similar diameters)."""
    return mgh.atlas(1) + mgh.atlas(2) + mgh.atlas(3) + mgh.atlas(4)


def _spider(legs):
    n = 1 + sum(legs)
    A = [[0] * n for _ in range(n)]
    v = 1
    for L in legs:
        prev = 0
        for _ in range(L):
            A[min(prev, v)][max(prev, v)] = 1
            prev = v
            v += 1
    return A


SPIDERS = [(3, 3, 1, 1, 1), (2, 2, 2, 1, 1), (4, 2, 1, 1), (3, 2, 2, 1), (2, 2, 1, 1, 1, 1)]      # 8..10 vertices


def run_big_vs_small(case, ctx):
    """Column j of the table (larger graph x small partner): all larger graphs (and a few spiders on 8-10
    vertices) against ONE small graph, or one spider against all small graphs; exact oracle."""
    from mc.choices import Chooser
    from persim import gromov_hausdorff

    smalls = small_partners()
    j = case["j"]
    if j < len(smalls):
        pairs = [(A, smalls[j]) for A in big_set(ctx.tier)] + [(_spider(L), smalls[j]) for L in SPIDERS]
    else:
        sp = _spider(SPIDERS[j - len(smalls)])
        pairs = [(sp, B) for B in big_set(ctx.tier)[::3]]
    with _seam.installed():
        for A, B in pairs:
            truth2 = {truth_of(A, B)}
            for X, Y in ((A, B), (B, A)):
                _seam.cache = {}
                _seam.start_run(Chooser(()))
                ctx.trans()
                ctx.state(("bvs", j, repr(A), X is A))
                res = gromov_hausdorff(np.array(X), np.array(Y))
                check_bracket(ctx, X, Y, truth2, res, {"answers": "default", "family": "larger graph vs small graph"})
    ctx.nontriv("larger_graph_against_small_graph", key=("bvs", j))
    ctx.outcome(("bvs", j))


def relabellings(n, full):
    import itertools

    if full:
        return [list(p) for p in itertools.permutations(range(n))]
    out = [list(range(n))[::-1]]
    out += [[(i + r) % n for i in range(n)] for r in range(1, n)]
    for a in range(n):
        for b in range(a + 1, n):
            p = list(range(n))
            p[a], p[b] = p[b], p[a]
            out.append(p)
    return out


def _path(n):
    return [[1 if j == i + 1 else 0 for j in range(n)] for i in range(n)]


def _cycle(n):
    A = _path(n)
    A[0][n - 1] = 1
    return A


def _star(n):
    return [[1 if (i == 0 and j > 0) else 0 for j in range(n)] for i in range(n)]


def _complete(n):
    return [[1 if j > i else 0 for j in range(n)] for i in range(n)]


def coll_cover(tier):
    """Graphs of very different sizes and diameters (1..7 vertices): in a collection the pairwise bounds of
    one pair must not be spoiled by what was computed for the other pairs."""
    hubs = [g for g in mgh.atlas(6, 1) if max(sum(r) + sum(c[i] for c in g) for i, r in enumerate(g)) >= 4][:3]
    cov = [_path(1), _path(2), _path(3), _path(4), _path(5), _path(6), _path(7), _cycle(4), _cycle(5), _cycle(6), _cycle(7),
           _star(4), _star(6), _complete(4), _complete(6)] + hubs
    return cov if tier == "thorough" else cov[:7] + cov[8:10] + cov[11:13] + cov[14:]


_TRUTH = {}


def truth_of(A, B):
    k = (repr(A), repr(B))
    if k not in _TRUTH:
        _TRUTH[k] = mgh.exact_double(mgh.bfs_dist(A).astype(np.int64), mgh.bfs_dist(B).astype(np.int64))
        _TRUTH[(repr(B), repr(A))] = _TRUTH[k]
    return _TRUTH[k]


def run_collection(case, ctx):
    """One unordered triple / 4-set of the cover, passed as a collection in EVERY order (triples) or in 4
    orders (4-sets): every entry of both result matrices must bracket that pair's true distance."""
    import itertools

    from mc.choices import Chooser
    from persim import gromov_hausdorff

    cov = coll_cover(ctx.tier)
    idx = case["idx"]
    if len(idx) == 3:
        orders = list(itertools.permutations(idx))
    else:
        orders = [tuple(idx), tuple(idx[::-1]), tuple(idx[1:] + idx[:1]), (idx[1], idx[0], idx[3], idx[2])]
    with _seam.installed():
        _seam.cache = {}
        for order in orders:
            gs = [cov[i] for i in order]
            _seam.start_run(Chooser(()))
            ctx.trans()
            ctx.state(("coll", order))
            res = gromov_hausdorff([np.array(g) for g in gs])
            ctx.valid()
            try:
                lbs, ubs = np.asarray(res[0], dtype=float), np.asarray(res[1], dtype=float)
                assert lbs.shape == ubs.shape == (len(gs), len(gs))
            except Exception:  # noqa: BLE001
                ctx.violation("collection-shape", "collection call did not return two NxN matrices", observed=repr(res)[:300], extra={"graphs": gs})
                continue
            if not (np.array_equal(lbs, lbs.T) and np.array_equal(ubs, ubs.T)) or np.any(np.diag(lbs) != 0) or np.any(np.diag(ubs) != 0):
                ctx.violation("collection-symmetry", "collection matrices are not symmetric with zero diagonal", observed=[lbs.tolist(), ubs.tolist()], extra={"graphs": gs})
            for a in range(len(gs)):
                for b in range(len(gs)):
                    if a != b:
                        check_bracket(ctx, gs[a], gs[b], {truth_of(gs[a], gs[b])}, (lbs[a, b], ubs[a, b]),
                                      {"collection_order": list(order), "entry": [a, b], "answers": "default"})
            if np.any(lbs < ubs):
                ctx.nontriv("collection_with_a_loose_bracket", key=("coll", order))
    ctx.outcome(("coll", idx))


def _tripod(leg):
    n = 3 * leg + 1
    A = [[0] * n for _ in range(n)]
    for a in range(3):
        prev = 0
        for k in range(leg):
            v = 1 + a * leg + k
            A[min(prev, v)][max(prev, v)] = 1
            prev = v
    return A


LARGE = [("path", 99), ("path", 110), ("path", 127), ("path", 130), ("cycle", 140), ("tripod", 40), ("tripod", 33)]


def run_large(case, ctx):
    """Graphs with around a hundred vertices (diameters beyond the range of int8): no exhaustive oracle, but
    a graph against a relabelled copy of itself has distance 0 (so lb must be 0), and for any pair
    0 <= lb <= ub and lb <= max diameter / 2 (the distance of any two spaces is at most that)."""
    from mc.choices import Chooser
    from persim import gromov_hausdorff

    def build(kind, n):
        return {"path": _path, "cycle": _cycle, "tripod": _tripod}[kind](n)

    A = build(*LARGE[case["i"]])
    n = len(A)
    rev = mgh.relabel(A, list(range(n))[::-1])
    partners = [("itself relabelled", rev, 0)]
    if case["i"] + 1 < len(LARGE):
        partners.append(("the next larger graph", build(*LARGE[case["i"] + 1]), None))
    partners.append(("a path on 81 vertices", _path(81), None))
    if "partner" in case:
        partners = partners[case["partner"]:case["partner"] + 1]
    with _seam.installed():
        for what, B, truth2 in partners:
            for X, Y in ((A, B), (B, A)):
                _seam.cache = {}
                _seam.start_run(Chooser(()))
                ctx.trans()
                ctx.state(("large", case["i"], what, X is A))
                res = gromov_hausdorff(np.array(X), np.array(Y))
                ctx.valid()
                try:
                    lb, ub = float(res[0]), float(res[1])
                except Exception:  # noqa: BLE001
                    ctx.violation("result-shape", "gromov_hausdorff did not return a pair of numbers", observed=repr(res))
                    continue
                dmax = max(int(mgh.bfs_dist(X).max()), int(mgh.bfs_dist(Y).max()))
                ex = {"graph": list(LARGE[case["i"]]), "partner": what}
                if not (0 <= lb <= ub) or lb > dmax / 2.0 or (2 * lb) != int(2 * lb) or (2 * ub) != int(2 * ub):
                    ctx.violation("large-graph-bounds", "bounds of a %d-vertex graph against %s violate 0 <= lb <= ub, lb <= max diameter/2 or the half-integer grid" % (n, what),
                                  observed=[lb, ub], expected={"max_diameter": dmax}, extra=ex)
                elif truth2 == 0 and lb != 0:
                    ctx.violation("isomorphic-lb", "a %d-vertex graph against a relabelled copy of itself must get lower bound 0" % n, observed=[lb, ub], expected=0.0, extra=ex)
    ctx.nontriv("graph_with_%d_vertices" % n)
    ctx.outcome(("large", case["i"]))


def cases(tier):
    import itertools

    for i in (range(len(LARGE)) if tier == "thorough" else (0, 2, 5)):
        for pk in range(3):          # one case per partner (balance: each call takes seconds)
            yield {"kind": "large", "i": i, "partner": pk}
    for c in small_cases(tier):
        yield c
    nc = len(coll_cover(tier))
    for t in itertools.combinations(range(nc), 3):
        yield {"kind": "collection", "idx": list(t)}
    for q in itertools.combinations(range(0, nc, 2), 4):
        yield {"kind": "collection", "idx": list(q)}
    S = big_set(tier)
    for i in range(len(small_partners()) + len(SPIDERS)):
        yield {"kind": "big-vs-small", "j": i}
    for i in range(len(S)):
        yield {"kind": "iso", "i": i}
    for i in range(len(S)):
        for j in range(i, len(S)):
            yield {"kind": "big-pair", "i": i, "j": j}


def small_cases(tier):
    nmax = 4 if tier == "quick" else 5
    full_upto = 3 if tier == "quick" else 4
    gs = graphs(nmax)
    for A in gs:
        for B in gs:
            big = max(len(A), len(B))
            if big <= full_upto:
                yield {"A": A, "B": B, "mode": "full", "orders": ["zero", "default", "one"]}
            elif big <= 4:
                yield {"A": A, "B": B, "mode": "dev1", "orders": ["zero", "default", "one"]}
            else:
                yield {"A": A, "B": B, "mode": "dev1" if (len(A) + len(B)) <= 7 else "dev0", "orders": ["default"]}


_seam = MGHSeam()
_seam.memoize = True


def check_bracket(ctx, A, B, truth2, res, what):
    """res = (lb, ub) as returned; truth2 = set of admissible values of 2*mGH."""
    ctx.valid()
    try:
        lb, ub = float(res[0]), float(res[1])
    except Exception:  # noqa: BLE001
        ctx.violation("result-shape", "gromov_hausdorff did not return a pair of numbers [%s]" % what, observed=repr(res))
        return None
    ex = {"A": A, "B": B, "schedule": what}
    if not (np.isfinite(lb) and np.isfinite(ub)) or lb < 0 or ub < 0 or (2 * lb) != int(2 * lb) or (2 * ub) != int(2 * ub):
        ctx.violation("not-half-integer", "bounds must be finite non-negative multiples of 1/2 [%s]" % what, observed=[lb, ub], extra=ex)
        return None
    if not any(2 * lb <= t <= 2 * ub for t in truth2):
        t = sorted(truth2)[0] / 2.0
        if lb > t:
            ctx.violation("lower-bound-too-high", "lower bound exceeds the true mGH distance [%s]" % what, observed=[lb, ub], expected=t, extra=ex)
        else:
            ctx.violation("upper-bound-too-low", "upper bound is below the true mGH distance [%s]" % what, observed=[lb, ub], expected=t, extra=ex)
    if 0 in truth2 and len(truth2) == 1 and lb != 0:
        ctx.violation("isomorphic-lb", "isomorphic graphs must get lower bound 0 [%s]" % what, observed=[lb, ub], expected=0.0, extra=ex)
    return lb, ub


def run_big(case, ctx):
    """Larger graphs (6-7 vertices), default RNG answers: lower-bound soundness needs diameter >= 3."""
    import warnings

    from mc.choices import Chooser
    from persim import gromov_hausdorff

    S = big_set(ctx.tier)
    A = S[case["i"]]
    with _seam.installed():
        if case["kind"] == "iso":
            n = len(A)
            for p in relabellings(n, full=(n <= 5 or (n <= 6 and ctx.tier == "thorough"))):
                B = mgh.relabel(A, p)
                for X, Y in ((A, B), (B, A)):
                    _seam.cache = {}
                    _seam.start_run(Chooser(()))
                    ctx.trans()
                    res = gromov_hausdorff(np.array(X), np.array(Y))
                    ctx.state(("iso", case["i"], p, X is A))
                    check_bracket(ctx, X, Y, {0}, res, {"relabelling": p})
            ctx.nontriv("isomorphic_relabellings_of_a_%d_vertex_graph" % n)
            ctx.outcome(("iso", case["i"]))
            return
        B = S[case["j"]]
        DA, DB = mgh.bfs_dist(A).astype(np.int64), mgh.bfs_dist(B).astype(np.int64)
        truth2 = {mgh.exact_double(DA, DB)}
        for X, Y in ((A, B), (B, A)):
            for oname in ("default", "zero"):
                kw = {} if ORDERS[oname] is None else {"mapping_sample_size_order": np.array(ORDERS[oname])}
                _seam.cache = {}
                _seam.start_run(Chooser(()))
                ctx.trans()
                res = gromov_hausdorff(np.array(X), np.array(Y), **kw)
                ctx.state(("big", case["i"], case["j"], X is A, oname))
                r = check_bracket(ctx, X, Y, truth2, res, {"order": oname, "answers": "default"})
                if r and X is A and oname == "default":
                    ctx.outcome(("big", r))
                    # on a fixed cover of the larger pairs: every single deviation from the default draws
                    if max(len(X), len(Y)) <= 5 and (case["i"] * 31 + case["j"]) % (5 if ctx.tier == "quick" else 1) == 0:
                        NX, NY = np.array(X), np.array(Y)

                        def run(ch):
                            _seam.start_run(ch)
                            ctx.trans()
                            return gromov_hausdorff(NX, NY)

                        nruns = 0
                        for prefix, tr, res2 in explore(run, 1):
                            nruns += 1
                            check_bracket(ctx, X, Y, truth2, res2, {"order": "default", "answers": [t[2] for t in tr]})
                        ctx.count("schedules_executed", nruns)
                        ctx.nontriv("larger_pair_with_deviation_bound_1_schedules")
                    if r[0] >= 1.0:
                        ctx.nontriv("lower_bound_of_2_or_more_halves_proved")
                    elif r[0] < r[1]:
                        ctx.nontriv("bracket_not_tight")


def run_case(case, ctx):
    from persim import gromov_hausdorff

    if case.get("kind") in ("iso", "big-pair"):
        return run_big(case, ctx)
    if case.get("kind") == "collection":
        return run_collection(case, ctx)
    if case.get("kind") == "large":
        return run_large(case, ctx)
    if case.get("kind") == "big-vs-small":
        return run_big_vs_small(case, ctx)
    A, B = case["A"], case["B"]
    truth2 = {mgh.exact_double(mgh.bfs_dist(A).astype(np.int64), mgh.bfs_dist(B).astype(np.int64))}
    NA, NB = np.array(A), np.array(B)
    bound = {"full": None, "dev1": 1, "dev0": 0}[case["mode"]]
    for oname in case["orders"]:
        kw = {} if ORDERS[oname] is None else {"mapping_sample_size_order": np.array(ORDERS[oname])}
        ctx.state((A, B, oname))
        results = set()
        _seam.cache = {}
        try:
            with _seam.installed():
                def run(ch):
                    _seam.start_run(ch)
                    ctx.trans()
                    return gromov_hausdorff(NA, NB, **kw)

                nruns = 0
                for prefix, tr, res in explore(run, bound):
                    nruns += 1
                    r = check_bracket(ctx, A, B, truth2, res, {"order": oname, "answers": [t[2] for t in tr]})
                    if r:
                        results.add(r)
                ctx.count("schedules_executed", nruns)
                if _seam.draws == 0:
                    ctx.count("seam_unused")
        except UnmodelledNondeterminism as e:
            ctx.cap("unmodelled nondeterminism: %s" % e)
            res = gromov_hausdorff(NA, NB, **kw)
            ctx.trans()
            r = check_bracket(ctx, A, B, truth2, res, {"order": oname, "answers": "free-running RNG"})
            if r:
                results.add(r)
        if oname == "default":
            # the same graphs with every edge stored BELOW the diagonal (first argument) / symmetrically (second)
            with _seam.installed():
                from mc.choices import Chooser as _Ch

                _seam.cache = {}
                _seam.start_run(_Ch(()))
                ctx.trans()
                res_t = gromov_hausdorff(NA.T.copy(), np.maximum(NB, NB.T), **kw)
                check_bracket(ctx, A, B, truth2, res_t, {"order": oname, "answers": "default", "orientation": "first lower-triangular, second symmetric"})
        ctx.outcome((oname, sorted(results)))
        if any(lb < ub for lb, ub in results):
            ctx.nontriv("bracket_not_tight")
        if len({ub for _, ub in results}) > 1:
            ctx.nontriv("schedules_give_different_upper_bounds")
        if mgh.isomorphic(A, B) and A != B:
            ctx.nontriv("isomorphic_relabelling")
