"""C11 — persistence images are additive, order-free and call-style independent (explorers A + C)."""
import itertools

import numpy as np

from checks.c04 import KERNELS, POINTS, REGIONS, WEIGHTS, imager_kwargs
from mc.choices import explore
from mc.seams import JoblibSeam

CALL_VARIANTS = True   # every whitelisted persim call is repeated with its arrays in another memory layout (mc/ctx.py)
PROPERTY = "C11"
RULE = (
    "imager configurations: the C04 cover (2 regions x pixel {1,0.5} x 14 kernels x 5 weights); diagrams: "
    "all multisets of <= 2 of the 12 C04 points; relations executed on every (configuration, diagram "
    "pair): img(D1+D2) = img(D1)+img(D2), row order, zero-weight points, empty diagram -> zeros of "
    "`resolution`, alone vs inside a collection, birth-death+skew vs pre-converted, non-negative weights "
    "=> pixels >= 0 and total <= total weight. Schedules: transform(n_jobs=1..4) under a controlled "
    "joblib backend: collections of 2-4 diagrams of different sizes in EVERY arrangement, ALL completion orders of the queued batches (24 for 4 diagrams) for the base arrangement and every single deviation for the others, plus "
    "free-running threading and loky runs; outputs must equal the serial result in input order. state = "
    "(configuration, diagrams) or (collection, n_jobs, completion order); transition = one transform "
    "call; non-trivial = two different points, or a completion order other than submission order."
)
ASSUMPTIONS = [
    "worker scheduling is modelled as: queued batches complete in any order, results are collected by submission index (joblib's contract); real OS scheduling only in the free-running runs",
]


def bounds(tier):
    return {"configs": len(REGIONS) * 2 * len(KERNELS) * len(WEIGHTS), "points": len(POINTS), "n_jobs": [1, 2, 3, 4], "collection_size": 4}


def cases(tier):
    yield {"kind": "free-running"}
    for ki in (0, 2, 9):
        for n in (17, 33, 301):
            yield {"kind": "single-large", "ki": ki, "n": n}
    for ri, px, ki in itertools.product(range(len(REGIONS)), (1.0, 0.5), range(len(KERNELS))):
        yield {"kind": "relations", "region": ri, "pixel": px, "kernel": ki}
    for ki in (0, 2, 5, 11, 13):
        for nj in (1, 2, 3, 4):
            yield {"kind": "schedules", "kernel": ki, "n_jobs": nj}


def make(region, px, kernel, weight):
    from persim import PersistenceImager

    br, pr = REGIONS[region]
    return PersistenceImager(birth_range=br, pers_range=pr, pixel_size=px, **imager_kwargs(KERNELS[kernel], weight))


def close(a, b, scale):
    a, b = np.asarray(a), np.asarray(b)
    return a.shape == b.shape and bool(np.all(np.abs(a - b) <= 1e-12 * scale))


def run_case(case, ctx):
    if case["kind"] == "relations":
        relations(case, ctx)
    elif case["kind"] == "schedules":
        schedules(case, ctx)
    elif case["kind"] == "single-large":
        single_large(ctx, case.get("ki"), case.get("n"))
    else:
        free_running(ctx)


def relations(case, ctx):
    for weight in WEIGHTS:
        im = make(case["region"], case["pixel"], case["kernel"], weight)
        res = tuple(im.resolution)
        ex0 = {"config": case, "weight": weight}
        T = lambda D, **kw: np.asarray(ctx.call(im.transform, np.array(D, dtype=float).reshape(-1, 2), **kw))  # noqa: E731
        single = [T([p]) for p in POINTS]
        swts = [float(im.weight(np.array([p[0]]), np.array([p[1] - p[0]]), **im.weight_params)[0]) for p in POINTS]
        wts = [abs(w) for w in swts]
        # empty diagram
        for empty in (np.zeros((0, 2)), [], np.array([])):
            e = np.asarray(ctx.call(im.transform, empty))
            ctx.valid()
            if e.shape != res or np.any(e != 0):
                ctx.violation("empty-diagram", "empty diagram does not give an all-zero image of the configured resolution",
                              observed=e.tolist(), expected=list(res), extra=ex0)
        for i, j in itertools.combinations_with_replacement(range(len(POINTS)), 2):
            D = [POINTS[i], POINTS[j]]
            ctx.state((case, weight, i, j))
            scale = max(1.0, wts[i] + wts[j])
            ex = dict(ex0, diagram=D)
            both = T(D)
            ctx.valid(4)
            if i != j:
                ctx.nontriv("two_different_points", key=(case, weight, i, j))
            if not close(both, single[i] + single[j], scale):
                ctx.violation("additivity", "image of a union is not the sum of the images", observed=both.tolist(),
                              expected=(single[i] + single[j]).tolist(), extra=ex)
            if not close(T(D[::-1]), both, scale):
                ctx.violation("row-order", "row order changes the image", extra=ex)
            # pre-converted birth-persistence form
            conv = [[b, d - b] for b, d in D]
            if not close(T(conv, skew=False), both, scale):
                ctx.violation("skew", "birth-death + skew=True differs from pre-converted + skew=False", extra=ex)
            # the combined call: fit_transform of the birth-death form, of the pre-converted form with skew=False,
            # and fit followed by transform give one and the same image (each on its own copy of the imager; needs
            # data of positive extent in birth and in persistence)
            if i < j and (i + 2 * j) % 11 == 0 and D[0][0] != D[1][0] and conv[0][1] != conv[1][1]:
                import copy

                A_bd, A_bp = np.array(D, dtype=float), np.array(conv, dtype=float)
                f1 = np.asarray(ctx.call(copy.deepcopy(im).fit_transform, A_bd))
                f2 = np.asarray(ctx.call(copy.deepcopy(im).fit_transform, A_bp, skew=False))
                im3 = copy.deepcopy(im)
                im3.fit(A_bp, skew=False)
                f3 = np.asarray(ctx.call(im3.transform, A_bp, skew=False))
                ctx.valid(2)
                ctx.nontriv("fit_transform_call_styles", key=(case, weight, i, j))
                if f1.shape != f3.shape or not close(f1, f3, scale):
                    ctx.violation("fit-transform-style", "fit_transform(D) differs from fit + transform of the pre-converted form", observed=f1.tolist(), expected=f3.tolist(), extra=ex)
                if f2.shape != f3.shape or not close(f2, f3, scale):
                    ctx.violation("fit-transform-style", "fit_transform(pre-converted, skew=False) differs from fit + transform with skew=False", observed=f2.tolist(), expected=f3.tolist(), extra=ex)
            # alone vs inside a collection (in order)
            coll = ctx.call(im.transform, [np.array(D, dtype=float), np.array([POINTS[i]], dtype=float)])
            if not (isinstance(coll, list) and len(coll) == 2 and np.array_equal(np.asarray(coll[0]), both) and np.array_equal(np.asarray(coll[1]), single[i])):
                ctx.violation("collection", "a diagram inside a collection gives another image than alone / order not kept", extra=ex)
            # zero-weight point contributes nothing (a point on the diagonal has weight 0 for the built-in weights that vanish at 0)
            if weight[0] == "persistence" or (weight[0] == "linear_ramp" and weight[1] == 0.0):
                ctx.valid()
                z = T(D + [[0.3, 0.3]])
                if not close(z, both, scale):
                    ctx.violation("zero-weight-point", "a point of zero weight changes the image", extra=ex)
            # non-negative weights: pixels >= 0, total <= total weight
            ctx.valid()
            if swts[i] >= 0 and swts[j] >= 0 and (both.min() < -1e-15 * scale or both.sum() > wts[i] + wts[j] + 1e-12 * scale):
                ctx.violation("mass-bounds", "negative pixel or pixel total above the total weight",
                              observed=[float(both.min()), float(both.sum())], expected=[0.0, wts[i] + wts[j]], extra=ex)
        ctx.outcome(np.round(single[0], 9).tolist())
        # a collection of 9 diagrams: image k must be the image of diagram k
        coll9 = [np.array([POINTS[(3 * k + j) % len(POINTS)] for j in range(1 + k % 4)], dtype=float) for k in range(9)]
        out9 = ctx.call(im.transform, coll9)
        ctx.valid()
        if not (isinstance(out9, list) and len(out9) == 9 and all(np.array_equal(np.asarray(o), np.asarray(im.transform(d))) for o, d in zip(out9, coll9))):
            ctx.violation("collection", "transform of a 9-diagram collection does not return the image of diagram k at position k", extra=ex0)
        # large diagrams: union of two halves, reversed order, zero-weight rows mixed in
        if weight in (WEIGHTS[0], WEIGHTS[2]) and case["pixel"] == 1.0:
            from checks.c04 import big_diagram

            for n in (300, 1100):
                D = big_diagram(n)
                whole = T(D)
                h1, h2 = T(D[: n // 3]), T(D[n // 3:])
                scale = max(1.0, float(np.abs(whole).max()) * 10)
                ctx.valid(3)
                ctx.nontriv("large_diagram", key=(case, weight, n))
                if not close(whole, h1 + h2, scale * 10):
                    ctx.violation("additivity", "image of a %d-point diagram is not the sum of the images of its two parts" % n,
                                  observed=float(np.abs(whole - h1 - h2).max()), extra=dict(ex0, n=n))
                if not close(T(D[::-1]), whole, scale * 10):
                    ctx.violation("row-order", "row order changes the image of a %d-point diagram" % n, extra=dict(ex0, n=n))
                Dz = []
                for k, p in enumerate(D):
                    Dz.append(p)
                    if k % 7 == 0:
                        Dz.append([p[0], p[0]])
                if weight[0] in ("persistence", "linear_ramp") and not close(T(Dz), whole, scale * 10):
                    ctx.violation("zero-weight-point", "zero-weight points change the image of a %d-point diagram" % n, extra=dict(ex0, n=n))


COLLECTION = [[[0.7, 1.9]], [[1.0, 2.0], [0.25, 2.25]], [[1.5, 1.75], [0.5, 1.0], [-0.5, 0.25]],
              [[1.99, 3.0], [0.1, 0.6], [0.3, 2.9], [1.2, 1.4]]]
_seam = JoblibSeam()


def schedules(case, ctx):
    weight = WEIGHTS[0]
    im = make(0, 0.5, case["kernel"], weight)
    nj = case["n_jobs"]
    # collections of 2, 3, 4 diagrams of DIFFERENT sizes in EVERY arrangement (a dispatch order that
    # depends on the diagrams, e.g. largest first, must still return results in input order)
    arrangements = []
    for size in (2, 3, 4):
        for perm in itertools.permutations(range(size)):
            arrangements.append([COLLECTION[i] for i in perm])
    for coll in arrangements:
        dg = [np.array(d, dtype=float) for d in coll]
        size = len(dg)
        serial = ctx.call(im.transform, dg)
        with _seam.installed():
            before = _seam.completions

            def run(ch):
                _seam.chooser = ch
                ctx.trans()
                return im.transform(dg, n_jobs=nj)

            # all completion orders for the identity arrangement; default + reversed completion otherwise
            full = coll == COLLECTION[:size]
            for prefix, tr, out in explore(run, None if full else 1, use_state_keys=False):
                order = [t[2] for t in tr]
                ctx.state(("sched", case["kernel"], nj, [len(d) for d in coll], order))
                ctx.count("completion_orders_executed")
                if any(order):
                    ctx.nontriv("completion_order_differs_from_submission", key=("sched", case["kernel"], nj, [len(d) for d in coll], order))
                ctx.valid()
                ok = isinstance(out, list) and len(out) == len(serial) and all(np.array_equal(np.asarray(a), np.asarray(b)) for a, b in zip(out, serial))
                if not ok:
                    ctx.violation("parallel-differs", "transform(n_jobs=%d) under completion order %r differs from the serial result" % (nj, order),
                                  extra={"kernel": KERNELS[case["kernel"]], "diagram_sizes": [len(d) for d in coll], "order": order})
            if _seam.completions == before and nj > 1:
                ctx.count("seam_unused")
        ctx.outcome(("sched", size, [np.round(np.asarray(s), 9).tolist() for s in serial][:1]))


def single_large(ctx, only_ki=None, only_n=None):
    """ONE large diagram with n_jobs (a transform that splits a big diagram across workers must still
    return the serial image), under every completion order of the controlled backend."""
    from checks.c04 import big_diagram

    for ki in ((0, 2, 9) if only_ki is None else (only_ki,)):
        im = make(1, 0.5, ki, WEIGHTS[0])
        for n in ((17, 33, 301) if only_n is None else (only_n,)):
            A = np.array(big_diagram(n), dtype=float)
            serial = np.asarray(ctx.call(im.transform, A))
            for nj in (2, 3, 4):
                with _seam.installed():
                    def run(ch):
                        _seam.chooser = ch
                        ctx.trans()
                        return im.transform(A, n_jobs=nj)

                    for prefix, tr, out in explore(run, None, use_state_keys=False, max_runs=30):
                        ctx.state(("single-large", ki, n, nj, [t[2] for t in tr]))
                        ctx.valid()
                        if np.asarray(out).shape != serial.shape or not np.allclose(np.asarray(out), serial, rtol=0, atol=1e-12 * max(1.0, np.abs(serial).max())):
                            ctx.violation("parallel-differs", "transform(one %d-point diagram, n_jobs=%d) differs from the serial image" % (n, nj),
                                          observed=float(np.abs(np.asarray(out) - serial).max()) if np.asarray(out).shape == serial.shape else list(np.asarray(out).shape),
                                          extra={"kernel": KERNELS[ki], "n": n, "n_jobs": nj})
            ctx.nontriv("single_large_diagram_parallel", key=("single-large", ki, n))


def free_running(ctx):
    import joblib

    im = make(1, 0.5, 2, WEIGHTS[3])
    dg = [np.array(d, dtype=float) for d in COLLECTION] * 3
    serial = ctx.call(im.transform, dg)
    for backend in ("threading", "loky"):
        for nj in (2, 4):
            ctx.state(("free", backend, nj))
            with joblib.parallel_config(backend=backend):
                out = ctx.call(im.transform, dg, n_jobs=nj)
            ctx.valid()
            if not (len(out) == len(serial) and all(np.array_equal(np.asarray(a), np.asarray(b)) for a, b in zip(out, serial))):
                ctx.violation("parallel-differs", "transform(n_jobs=%d) on the %s backend differs from the serial result" % (nj, backend))
    single = ctx.call(im.transform, dg[1], n_jobs=2)
    ctx.valid()
    if not np.array_equal(np.asarray(single), np.asarray(serial[1])):
        ctx.violation("parallel-differs", "a single diagram with n_jobs=2 differs from the serial result")
    # collections of LARGE diagrams (1500 pairs each): the workers really overlap in time, on every backend and
    # with whatever backend hint the library itself passes to joblib (free-running: real OS scheduling)
    from checks.c04 import big_diagram

    big = [np.array(big_diagram(1500), dtype=float) + 0.01 * k for k in range(8)]
    for imb in (make(1, 1.0, 0, WEIGHTS[0]), make(1, 1.0, 2, WEIGHTS[3])):
        serial_b = ctx.call(imb.transform, big)
        runs = [("library default", None, 4), ("library default", None, 8), ("threading", "threading", 4), ("loky", "loky", 3)]
        for what, backend, nj in runs:
            ctx.state(("free-big", what, nj))
            if backend is None:
                out = ctx.call(imb.transform, big, n_jobs=nj)
            else:
                with joblib.parallel_config(backend=backend):
                    out = ctx.call(imb.transform, big, n_jobs=nj)
            ctx.valid()
            if not (len(out) == len(serial_b) and all(np.array_equal(np.asarray(a), np.asarray(b)) for a, b in zip(out, serial_b))):
                ctx.violation("parallel-differs", "transform of 8 diagrams of 1500 pairs with n_jobs=%d (%s backend) differs from the serial result" % (nj, what))
    ctx.nontriv("large_collection_free_running")
