"""C16 — persistent entropy is the Shannon entropy of normalised bar lengths (explorer A)."""
import itertools
import math

import numpy as np

from checks.common import INF, is_num
from mc.enumerate import multisets_upto, distinct_permutations
from oracles import simple as OS

CALL_VARIANTS = True   # every whitelisted persim call is repeated with its arrays in another memory layout (mc/ctx.py)
PROPERTY = "C16"
LENGTHS = [0.25, 0.5, 1.0, 2.0, 3.0, 7.0]
BIRTHS = [[0.0, 0.0, 0.0, 0.0, 0.0], [0.0, 1.0, 2.0, 5.0, 3.0], [-3.0, 1.0, -1.0, 2.0, -7.5]]
RULE = (
    "all barcodes = multisets of <= 4 bar lengths from {1/4,1/2,1,2,3,7} x 3 birth patterns (incl. negative "
    "births); per barcode: all 8 flag combinations (keep_inf, val_inf, normalize) x 0..2 infinite bars, "
    "all row orders (n<=3), int/float arrays, list-of-diagrams calls (1-3 diagrams), scalings and shifts, "
    "a bar of zero / negative length (must raise). state = (barcode, births); transition = one "
    "persistent_entropy call; non-trivial = at least two different bar lengths (entropy strictly between 0 and log n)."
)
ASSUMPTIONS = ["keep_inf=True with val_inf=None must raise only when infinite bars are present (without them either outcome is accepted)"]
TOL = 1e-12


def bounds(tier):
    return {"lengths": LENGTHS if tier == "quick" else LENGTHS_T, "max_bars": 4 if tier == "quick" else 5, "birth_patterns": BIRTHS}


LENGTHS_T = [1e-6, 0.25, 0.5, 1.0, 2.0, 3.0, 7.0, 1e6]


def cases(tier):
    if tier == "thorough":
        for ls in multisets_upto(LENGTHS_T, 5, min_size=1):
            for bi in range(len(BIRTHS)):
                yield {"lengths": list(ls), "births": bi}
        return
    for ls in multisets_upto(LENGTHS, 4, min_size=1):
        for bi in range(len(BIRTHS)):
            yield {"lengths": list(ls), "births": bi}
    # barcodes with 6..40 bars and lists of 5..9 diagrams
    for n in (6, 9, 17, 40):
        yield {"kind": "medium", "n": n}


def mk(lengths, births):
    return [[b, b + l] for l, b in zip(lengths, births)]


def pe(ctx, *a, **kw):
    from persim.persistent_entropy import persistent_entropy

    args = a[0] if isinstance(a[0], list) else [a[0]]
    before = [x.tobytes() for x in args if isinstance(x, np.ndarray)]
    try:
        return ctx.call(persistent_entropy, *a, **kw)
    finally:
        ctx.valid()
        if [x.tobytes() for x in args if isinstance(x, np.ndarray)] != before:
            ctx.violation("argument-modified", "persistent_entropy modified its input array (flags %r)" % (kw,),
                          observed=[np.asarray(x).tolist() for x in args])


def expect(ctx, sig, got, want, what, extra):
    """got: result array; want: list of floats."""
    ctx.valid()
    try:
        g = np.asarray(got, dtype=float)
    except Exception:  # noqa: BLE001
        g = None
    if g is None or g.shape != (len(want),) or not np.all(np.abs(g - np.array(want)) <= TOL * 10):
        ctx.violation(sig, "persistent_entropy is not -sum p log p (%s)" % what,
                      observed=g.tolist() if g is not None else repr(got), expected=want, extra=extra)
        return False
    return True


def must_raise(ctx, sig, what, thunk, extra):
    ctx.valid()
    try:
        r = ctx.call(thunk)
    except Exception:  # noqa: BLE001
        return
    ctx.violation(sig, "%s: expected an error, got a value" % what, observed=np.asarray(r).tolist(), extra=extra)


def run_medium(case, ctx):
    n = case["n"]
    ls = [0.25 + ((i * 7) % 11) * 0.5 + (i % 3) * 0.125 for i in range(n)]
    A = np.array([[float(i % 5) - 2.0, float(i % 5) - 2.0 + l] for i, l in enumerate(ls)])
    E = OS.entropy(ls)
    ctx.state(("medium", n))
    ctx.nontriv("medium_barcode_%d" % n)
    expect(ctx, "value-medium", pe(ctx, A), [E], "%d bars" % n, {"n": n})
    expect(ctx, "value-medium", pe(ctx, A[::-1].copy(), normalize=True), [E / math.log(n)], "%d bars reversed, normalized" % n, {"n": n})
    Ainf = np.vstack([A[: n // 2], [[0.0, INF], [1.0, INF]], A[n // 2:]])
    expect(ctx, "value-medium", pe(ctx, Ainf), [E], "%d bars + 2 infinite" % n, {"n": n})
    expect(ctx, "value-medium", pe(ctx, Ainf, keep_inf=True, val_inf=50.0, normalize=True),
           [OS.entropy(ls + [50.0, 49.0]) / math.log(n + 2)], "%d bars + 2 infinite kept" % n, {"n": n})
    for k in (5, 9):
        lst = [A[: 2 + (j * 3) % (n - 1)].copy() for j in range(k)]
        want = [OS.entropy(ls[: 2 + (j * 3) % (n - 1)]) for j in range(k)]
        expect(ctx, "value-medium", pe(ctx, lst), want, "list of %d diagrams" % k, {"n": n, "k": k})
        wn = [w / math.log(2 + (j * 3) % (n - 1)) for j, w in enumerate(want)]
        expect(ctx, "value-medium", pe(ctx, lst, normalize=True), wn, "list of %d diagrams normalized" % k, {"n": n, "k": k})
    ctx.outcome(("medium", n, round(E, 9)))


def run_case(case, ctx):
    if case.get("kind") == "medium":
        return run_medium(case, ctx)
    ls, births = case["lengths"], BIRTHS[case["births"]]
    n = len(ls)
    D = mk(ls, births)
    A = np.array(D, dtype=float)
    E = OS.entropy(ls)
    ctx.state((ls, case["births"]))
    ctx.outcome(round(E, 10))
    if len(set(ls)) > 1:
        ctx.nontriv("unequal_lengths")
    # definition + bounds (oracle side sanity: 0 <= E <= log n, = log n for equal lengths)
    if not (-1e-15 <= E <= math.log(n) + 1e-12) or (len(set(ls)) == 1 and abs(E - math.log(n)) > 1e-12):
        raise AssertionError("oracle broken")
    expect(ctx, "value", pe(ctx, A), [E], "float array", {"dgm": D})
    ctx.valid()
    v = pe(ctx, A)
    if np.asarray(v).shape == (1,) and not (-1e-12 <= float(v[0]) <= math.log(n) + 1e-12):
        ctx.violation("range", "entropy outside [0, log n]", observed=float(v[0]), extra={"dgm": D})
    if all(float(x).is_integer() for p in D for x in p):
        expect(ctx, "value-container", pe(ctx, np.array(D, dtype=int)), [E], "int array", {"dgm": D})
        if all(x >= 0 for p in D for x in p):
            for dt, kk in ((np.uint8, 25), (np.int16, 4000), (np.uint64, 3)):
                if max(x for p in D for x in p) * kk > np.iinfo(dt).max:
                    continue        # the scaled barcode does not fit this dtype
                expect(ctx, "value-container", pe(ctx, (np.array(D, dtype=np.int64) * kk).astype(dt)), [E], "%s array x %d" % (np.dtype(dt), kk), {"dgm": D})
    # row orders
    perms = list(distinct_permutations(tuple(map(tuple, D)))) if n <= 3 else [tuple(map(tuple, D[::-1])), tuple(map(tuple, D[1:] + D[:1]))]
    for p in perms:
        expect(ctx, "value-perm", pe(ctx, np.array(p, dtype=float)), [E], "row order", {"dgm": p})
    # scaling and translating the bars
    for a, c in ((0.1, 0.0), (1e6, 0.0), (1.0, -3.7), (1.0 / 3.0, 1e3)):
        D2 = [[a * b + c, a * d + c] for b, d in D]
        g = pe(ctx, np.array(D2))
        ctx.valid()
        if np.asarray(g).shape != (1,) or abs(float(g[0]) - E) > 1e-9:
            ctx.violation("scale-shift-invariance", "entropy changes under x -> %r*x + %r" % (a, c), observed=np.asarray(g).tolist(), expected=E, extra={"dgm": D2})
    # far from the origin, at coordinates that are not short binary fractions: death - birth is still exact in
    # floating point (Sterbenz), so the entropy of the bars AS STORED is matched to round-off - a normaliser
    # formed as sum(deaths) - sum(births), or lengths taken in single precision, is not
    import fractions

    for a, c in ((1.0 / 3.0, 1048576.0 + 1.0 / 3.0), (1.0, 1e8 + 0.1), (0.001, 1e10 / 3.0), (1.0 / 7.0, -3e6 - 0.7)):
        Df = np.array([[a * b + c, a * d + c] for b, d in D], dtype=float)
        lens_exact = [fractions.Fraction(float(d_)) - fractions.Fraction(float(b_)) for b_, d_ in Df]
        if min(lens_exact) <= 0:
            continue
        Ef = OS.entropy([float(x) for x in lens_exact])
        g = pe(ctx, Df)
        ctx.valid()
        if np.asarray(g).shape != (1,) or abs(float(g[0]) - Ef) > 1e-12 * max(1.0, Ef):
            ctx.violation("value-far-offset", "entropy of a barcode far from the origin (x -> %r*x + %r) is not the entropy of its bar lengths" % (a, c),
                          observed=np.asarray(g).tolist(), expected=Ef, extra={"dgm": Df.tolist()})
    # normalised variant
    if n >= 2:
        g = pe(ctx, A, normalize=True)
        want = E / math.log(n)
        ok = expect(ctx, "value-normalized", g, [want], "normalize=True", {"dgm": D})
        if ok and not (-1e-12 <= float(g[0]) <= 1 + 1e-12):
            ctx.violation("range", "normalised entropy outside [0,1]", observed=float(g[0]), extra={"dgm": D})
    # infinite bars x flags
    for n_inf in (0, 1, 2):
        infbars = [[births[0], INF], [births[1] + 0.5, INF]][:n_inf]
        Dinf = infbars[:1] + D + infbars[1:]
        Ainf = np.array(Dinf, dtype=float)
        # substitution values: above every finite death (9.0, 1e4) AND between the infinite bars' births and
        # the finite deaths (only the infinite deaths are to be replaced, finite coordinates stay)
        top_inf_birth = max([b for b, _ in infbars] + [min(births[:n])])
        vals = [9.0, None, top_inf_birth + 0.125, top_inf_birth + 0.75, 1e4] if n_inf else [9.0, None, min(births[:n]) + 0.125]
        for keep_inf, val_inf, normalize in itertools.product((True, False), vals, (False, True)):
            kw = dict(keep_inf=keep_inf, val_inf=val_inf, normalize=normalize)
            extra = {"dgm": Dinf, "flags": kw}
            if keep_inf and val_inf is None:
                if n_inf:
                    must_raise(ctx, "keep-inf-without-value", "keep_inf=True, val_inf=None with infinite bars", lambda: pe(ctx, Ainf, **kw), extra)
                continue
            if keep_inf:
                lens = [l for l in ls] + [val_inf - b for b, _ in infbars]
                # keep the row order irrelevant: entropy of the multiset of lengths
            else:
                lens = list(ls)
            if normalize and len(lens) < 2:
                continue
            want = OS.entropy(lens) / (math.log(len(lens)) if normalize else 1.0)
            expect(ctx, "value-inf-flags", pe(ctx, Ainf, **kw), [want], "flags %r, %d infinite bars" % (kw, n_inf), extra)
            # the same flags as NumPy booleans (what `mask.any()` or `arr[i] > 0` yields) and as 0 / 1
            for conv, cname in ((np.bool_, "numpy booleans"), (int, "integers 0/1")):
                kw2 = dict(kw, keep_inf=conv(keep_inf), normalize=conv(normalize))
                expect(ctx, "value-flag-types", pe(ctx, Ainf, **kw2), [want], "flags given as %s %r, %d infinite bars" % (cname, kw, n_inf), extra)
    # a substitution value of exactly zero (falsy!) for infinite bars born below zero
    shift = max(b + l for l, b in zip(ls, births)) + 1.0
    Dneg = [[b - shift, b + l - shift] for l, b in zip(ls, births)]          # whole barcode below 0
    Dz = [[-2.0, INF]] + Dneg + [[-0.5, INF]]
    for vz in (0.0, 0, -0.0):
        want = OS.entropy(list(ls) + [2.0, 0.5])
        expect(ctx, "value-inf-flags", pe(ctx, np.array(Dz, dtype=float), keep_inf=True, val_inf=vz), [want],
               "keep_inf=True, val_inf=%r" % (vz,), {"dgm": Dz})
    # list of diagrams -> vector of the individual entropies (in order)
    others = [[[0.0, 1.0]], [[0.0, 1.0], [1.0, 4.0]], [[2.0, 2.5], [0.0, 3.0], [1.0, 2.0]]]
    for k in (1, 2, 3):
        lst = [A] + [np.array(o) for o in others[: k - 1]]
        want = [E] + [OS.entropy([d - b for b, d in o]) for o in others[: k - 1]]
        expect(ctx, "value-list", pe(ctx, lst), want, "list of %d diagrams" % k, {"dgms": [D] + others[: k - 1]})
        expect(ctx, "value-list", pe(ctx, lst[::-1]), want[::-1], "list of %d diagrams reversed" % k, {"dgms": ([D] + others[: k - 1])[::-1]})
    # lists of diagrams with EQUAL bar counts (a vectorised path could stack them) x normalize
    if n >= 2:
        twin = np.array([[b + 1.0, b + 1.0 + 2.0 * l] for l, b in zip(ls[::-1], births)], dtype=float)  # same count, other lengths
        El = OS.entropy([2.0 * l for l in ls])
        for k, lst, want in ((2, [A, twin], [E, El]), (3, [twin, A, A[::-1].copy()], [El, E, E]), (4, [A, A, twin, A], [E, E, El, E])):
            for normalize in (False, True):
                w = [x / math.log(n) for x in want] if normalize else want
                expect(ctx, "value-list-equal-shapes", pe(ctx, lst, normalize=normalize), w,
                       "list of %d diagrams with %d bars each, normalize=%r" % (k, n, normalize), {"dgms": [np.asarray(x).tolist() for x in lst]})
    # a bar of non-positive length must raise instead of yielding a number
    for badbar in ([1.0, 1.0], [2.0, 1.0], [3.0, 1.0]):
        for pos in (0, n):
            Db = D[:pos] + [badbar] + D[pos:]
            must_raise(ctx, "non-positive-bar", "bar %r of non-positive length" % badbar, lambda: pe(ctx, np.array(Db)), {"dgm": Db})
            if all(float(x).is_integer() and 0 <= x < 120 for p_ in Db for x in p_):   # (fits int8 / uint8)
                # the same barcode in integer / unsigned dtypes (death - birth must not wrap around)
                for dt in (np.int64, np.int8, np.uint8, np.uint64):
                    must_raise(ctx, "non-positive-bar", "bar %r of non-positive length, dtype %s" % (badbar, np.dtype(dt)),
                               lambda: pe(ctx, np.array(Db, dtype=dt)), {"dgm": Db, "dtype": str(np.dtype(dt))})
            must_raise(ctx, "non-positive-bar", "bar %r of non-positive length inside a list" % badbar,
                       lambda: pe(ctx, [np.array(others[1]), np.array(Db)]), {"dgm": Db})
